"""C10 extension - transposition on the END-TO-END pipeline model.

What this module adds to c10.py (library A x B vs library B x A): the transposition is done IN LEAN.  The A x B case is
sent to the driver op `pipe_slice_t`, which applies `CubeData.transpose` (variables of the slice exchanged, every raw array
with the axis groups exchanged), exchanges the two transforms with their direction-specific keywords mirrored
(`TDim.mirror`) and runs the pipeline model; the result is compared, output for output and cell for cell, with the REAL
library run on the B x A response (tabulated from the survey with the answers exchanged, transforms mirrored in Python).
So the object the theorems of Props/C10_Pipeline.lean speak about (`c.transpose`, `d.mirror`) is tied to what "the
transposed response" is for the library: the transposed raw arrays must be the tabulated B x A payload, and the
model on them must be the library on it.  On every few cases the executable twin of `C10.slice_output_transposes`
(`SliceOut.transposeOf`) is evaluated too, whenever the theorem's hypotheses hold.
"""
import copy
import itertools
from fractions import Fraction
import common
import gen
from props import _slice_common as sc
from props import c05_pipeline as cp
from props import c10

PROPERTY = "C10"
LEAN_MODULE = ["CrCube.Props.C10_Pipeline"]
THEOREMS = [
    "CrCube.C10.nine_extractors_transpose",
    "CrCube.C10.extractors_transpose",
    "CrCube.C10.numeric_transpose",
    "CrCube.C10.pruning_masks_swap",
    "CrCube.C10.minorsVanish_symmetric",
    "CrCube.C10.defective_symmetric",
    "CrCube.C10.z_guard_symmetric",
    "CrCube.C10.slice_blocks_transpose",
    "CrCube.C10.population_blocks_transpose",
    "CrCube.C10.population_blocks_transpose_counterexample",
    "CrCube.C10.slice_blocks_transpose_ok",
    "CrCube.C10.row_order_transposes",
    "CrCube.C10.col_order_transposes",
    "CrCube.C10.sort_by_marginal_not_mirrored_counterexample",
    "CrCube.C10.assemble_transposes",
    "CrCube.C10.slice_output_transposes",
    "CrCube.C10.pipeline_transposes",
    "CrCube.C10.scale_marginals_swap",
]
RULE = ("pipeline-transposition: the C05 pipeline generator (2-D and 3-D designs over cat / cat_date / text / binned / datetime / "
        "mr, all order types, insertions incl. differences, hide, prune, numeric measures, population) restricted to designs "
        "whose variables each contribute one dimension; the case is transposed in Lean and compared with the library on the "
        "tabulated B x A response; non-trivial / distinct as in c05_pipeline (an order that differs from the stripped one)")
ASSUMPTIONS = ["mirrored transforms are those the library implements on both axes (N8); the comparison itself (model on the "
               "transposed input vs library on the transposed response) needs no such restriction",
               "categorical arrays (two dimensions from one variable) are outside `CubeData.Transposable`; c10.py covers "
               "subvariable-first vs category-first at library level"]
TRUSTED_EXTRA = ["Python transposition of the case (answers exchanged, numeric payload axes permuted, keywords mirrored)"]


def _ok_design(vars_):
    return len(vars_) in (2, 3) and all(len(v.apparent_kinds()) == 1 for v in vars_)


def _permute_flat(flat, shapes, perm):
    """flat row-major data over axis groups `shapes` (one list per variable) -> groups reordered by `perm`"""
    offs, acc = [], 0
    for s in shapes:
        offs.append(acc)
        acc += len(s)
    full = [n for s in shapes for n in s]
    strides, a = [], 1
    for n in reversed(full):
        strides.append(a)
        a *= n
    strides = list(reversed(strides))
    new_axes = [offs[p] + i for p in perm for i in range(len(shapes[p]))]
    out = []
    for ix in itertools.product(*[range(full[ax]) for ax in new_axes]):
        out.append(flat[sum(i * strides[ax] for i, ax in zip(ix, new_axes))])
    return out


def transpose_case(case):
    """the B x A case: last two variables exchanged, answers exchanged, numeric payload transposed, transforms mirrored"""
    vars_, survey = sc.load(case)
    n = len(vars_)
    perm = list(range(n - 2)) + [n - 1, n - 2]
    out = copy.deepcopy(case)
    out["vars"] = [case["vars"][p] for p in perm]
    out["survey"] = gen.survey_to_json([(w, [ans[p] for p in perm]) for w, ans in survey])
    tr = case.get("transforms") or {}
    new_tr = {}
    if "columns_dimension" in tr:
        new_tr["rows_dimension"] = c10._mirror_dim(tr["columns_dimension"] or {})
    if "rows_dimension" in tr:
        new_tr["columns_dimension"] = c10._mirror_dim(tr["rows_dimension"] or {})
    out["transforms"] = new_tr
    if case.get("measures"):
        shapes = [gen.raw_shape([v]) for v in vars_]
        out["measures"] = {name: _permute_flat(data, shapes, perm) for name, data in case["measures"].items()}
    return out


def gen_case(rng):
    for _ in range(200):
        case = cp.gen_case(rng)
        vars_, _ = sc.load(case)
        if not _ok_design(vars_):
            continue
        # tiny-weight regime (all weights x 2^-40, exact): the scale std-err divides a rounding-level std-dev (~1e-15 where the exact value
        # is 0) by sqrt(a margin of ~1e-11), which lifts float cancellation to ~1e-9 against the exact model - rounding, not a defect
        # (DESIGN section 10); c10.py keeps that regime at library level, where both sides are floats
        ws = [Fraction(w) for w, _ in case["survey"]]
        if case.get("weighted") and ws and max(ws) < Fraction(1, 2 ** 20):
            continue
        # keep multiple-response designs well represented (the generator's sort / prune families are CAT x CAT)
        if not any(v.kind == "mr" for v in vars_[-2:]) and rng.random() < 0.45:
            continue
        # `col_index` has no row twin: the mirrored keyword would not exist
        for d in (case.get("transforms") or {}).values():
            o = (d or {}).get("order") or {}
            if o.get("measure") == "col_index":
                o["measure"] = "col_percent"
        return case
    raise common.HarnessFault("c10_pipeline: no transposable design in 200 draws")


def generate(ctx):
    return [gen_case(ctx.rng) for _ in range(ctx.n(70, 1200))]


def _twins(case):
    return (len(case["survey"]) + len(repr(case.get("transforms")))) % 3 == 1


def lean_ops(case):
    ops = cp.lean_ops(case)
    out = []
    for op in ops:
        op = dict(op)
        op["op"] = "pipe_slice_t"
        op.pop("survey", None)
        op["twins"] = _twins(case)
        out.append(op)
    return out


def _fr(x):
    return None if x in ("nan", None) else Fraction(x)


def evaluate(case, louts, ctx):
    findings = []
    caseBA = transpose_case(case)
    varsBA, surveyBA, _lv, _ls, wdata, udata = sc.lean_inputs(caseBA)
    mo = cp._measure_ops(caseBA, varsBA)
    for k, lo in enumerate(louts):
        if not lo.get("transposable"):
            raise common.HarnessFault("c10_pipeline: generated design is not CubeData.Transposable")
        # the raw arrays transposed in Lean ARE the tabulated B x A payload
        for nm, want in (("wdata_t", wdata), ("udata_t", udata), ("sums_t", mo.get("sums")), ("means_t", mo.get("means")),
                         ("stddevs_t", mo.get("stddevs"))):
            got = lo.get(nm)
            if want is None and got is None:
                continue
            if want is None or got is None or [_fr(x) for x in got] != [_fr(x) for x in want]:
                findings.append({"kind": "model", "locus": "tpipe.transposeRaw.%s" % nm,
                                 "detail": "k=%d Lean %s vs tabulated B x A %s" % (k, sc._short(got), sc._short(want))})
        if "raises" not in lo:
            ctx.count("tpipe.hyp_holds" if lo["hyp"] else "tpipe.hyp_fails")
            if lo["hyp"] and _twins(case):
                ctx.count("tpipe.twin_evaluated")
                if not lo["twin"]:
                    findings.append({"kind": "model", "locus": "tpipe.twin-of-slice_output_transposes",
                                     "detail": "k=%d hypotheses hold but SliceOut.transposeOf is false" % k})
    if findings:
        return findings, None
    f2, key = cp.evaluate(caseBA, louts, ctx)
    for f in f2:
        f = dict(f)
        f["locus"] = "tpipe." + f["locus"].replace("pipeline.", "", 1)
        f["detail"] = "library on B x A vs model on CubeData.transpose(A x B): " + f["detail"]
        findings.append(f)
    if findings and len(varsBA) == 2:
        # a disagreement here + the theorems + the C05 tie = the library's two runs are not transposes: let the
        # library-level oracle of c10.py name the failing property (spec-kind) when it can
        try:
            f3, _ = c10.evaluate(dict(case, family="two"), [], ctx)
            findings.extend(f3)
        except Exception:  # noqa
            pass
    return findings, (("T",) + tuple(key) if key else None)


def describe(case):
    d = cp.describe(case) if hasattr(cp, "describe") else {}
    return d


shrink_candidates = sc.shrink_candidates
