"""Source-table tie (shared by cXX_tables.py extension modules).

`tools/srctables.py` TRANSLATES the table-shaped code of the working tree (enum value lists, type sets, the three
sort-keyword dictionaries, the extractor dispatch dictionary) into a Lean file whose theorems say that the
hand-written model's tables are those very tables on every string / enum member.  The file is regenerated from
the tree under test on every run and compiled with `lake env lean`; the result is cached on the hash of
(generated file, Lean sources).  A theorem that no longer checks is a broken proof obligation (finding kind
"model"): the property's behavioural sweep, which runs in the same check, is the failing-input search.
A table the translator cannot find in its expected syntactic shape yields no obligation and no alarm; it is
counted in the evidence (`srctables_unextractable`).
"""
import fcntl
import hashlib
import json
import os
import re
import subprocess
import sys

import common

VERIF = common.VERIF
LEAN_DIR = common.LEAN_DIR
sys.path.insert(0, os.path.join(VERIF, "tools"))
import srctables  # noqa: E402

ALLOWED_AXIOMS = {"propext", "Classical.choice", "Quot.sound"}
_memo = {}


def _lean_sources_hash():
    h = hashlib.sha256()
    for rel in ("CrCube/Model/Collator.lean", "CrCube/Model/Glue.lean", "CrCube/Spec/Order.lean", "CrCube/Model/Variance.lean",
                "CrCube/Model/Population.lean", "CrCube/Model/PairwiseLegacy.lean"):
        with open(os.path.join(LEAN_DIR, rel), "rb") as fh:
            h.update(fh.read())
    return h.hexdigest()


def run_tie():
    """-> {"theorems": {name: {"ok": bool, "axioms": [...], "detail": str}}, "unextractable": [...], "tables": {...}}"""
    repo = common.REPO
    if repo in _memo:
        return _memo[repo]
    t = srctables.extract(repo)
    src, thms = srctables.render(t)
    key = hashlib.sha256((src + "|" + _lean_sources_hash()).encode()).hexdigest()
    cdir = os.path.join(LEAN_DIR, ".lake", "srctables")
    os.makedirs(cdir, exist_ok=True)
    cpath = os.path.join(cdir, key + ".json")
    lock = open(os.path.join(cdir, "lock"), "w")
    fcntl.flock(lock, fcntl.LOCK_EX)
    try:
        if os.path.exists(cpath):
            res = json.load(open(cpath))
        else:
            lf = os.path.join(cdir, "SourceTables_%s.lean" % key[:16])
            with open(lf, "w") as fh:
                fh.write(src)
            p = subprocess.run(["lake", "env", "lean", lf], cwd=LEAN_DIR, capture_output=True, text=True, timeout=900)
            out = p.stdout + p.stderr
            if "unknown module prefix" in out or "object file" in out and "does not exist" in out:
                raise common.HarnessFault("srctables: Lean library not built: " + out[-500:])
            lines = src.split("\n")
            # which theorem does each error belong to: the last `theorem <name>` at or above the error line
            starts = [(i + 1, m.group(1)) for i, l in enumerate(lines) for m in [re.match(r"theorem (\w+)", l)] if m]
            errs = {}
            for m in re.finditer(r"^[^\n]*?:(\d+):\d+: error: (.*?)(?=^\S+:\d+:\d+: |^'CrCube|\Z)", out, re.S | re.M):
                ln = int(m.group(1))
                owner = None
                for s, nm in starts:
                    if s <= ln:
                        owner = nm
                errs.setdefault(owner, []).append(" ".join(m.group(2).split())[:400])
            th = {}
            for nm in thms:
                full = "CrCube.SourceTables." + nm
                m = re.search(r"'%s' depends on axioms: \[([^\]]*)\]" % re.escape(full), out, re.S)
                if m:
                    ax = [a.strip() for a in m.group(1).replace("\n", " ").split(",") if a.strip()]
                elif re.search(r"'%s' does not depend on any axioms" % re.escape(full), out):
                    ax = []
                else:
                    ax = None
                ok = ax is not None and set(ax) <= ALLOWED_AXIOMS and nm not in errs
                th[nm] = {"ok": ok, "axioms": ax, "detail": "; ".join(errs.get(nm, []))[:800]}
            res = {"theorems": th, "unextractable": t["unextractable"], "lean_file": lf, "rc": p.returncode,
                   "stray_errors": errs.get(None, [])}
            if p.returncode == 0 or any(not v["ok"] for v in th.values()):
                json.dump(res, open(cpath, "w"))
            else:
                raise common.HarnessFault("srctables: lean failed without a failing theorem: " + out[-800:])
    finally:
        fcntl.flock(lock, fcntl.LOCK_UN)
        lock.close()
    res["tables"] = t
    _memo[repo] = res
    return res


def make_module(prop, theorem_names, what):
    """build the contract functions for an extension module claiming `theorem_names` of the generated file"""

    def generate(ctx):
        return [{"kind": "srctables", "theorems": list(theorem_names)}]

    def lean_ops(case):
        return []

    def evaluate(case, louts, ctx):
        res = run_tie()
        findings = []
        n_ok = 0
        for nm in case["theorems"]:
            th = res["theorems"].get(nm)
            if th is None:
                ctx.count("srctables_unextractable")
                continue
            if th["ok"]:
                n_ok += 1
                ctx.count("srctables_theorems_checked")
                ctx.count("srctables_checked:CrCube.SourceTables.%s(axioms=%s)" % (nm, "+".join(th["axioms"]) or "none"))
            else:
                findings.append({"kind": "model", "locus": "srctables." + nm,
                                 "detail": "generated theorem CrCube.SourceTables.%s (model table = table in %s's source) no "
                                           "longer checks: %s (axioms %s); file %s" % (
                                               nm, common.REPO, th["detail"], th["axioms"], res.get("lean_file"))})
        for u in res["unextractable"]:
            ctx.count("srctables_unextractable:" + u)
        return findings, ("srctables", n_ok) if n_ok else None

    def describe(case):
        return {"kind": "srctables", "theorems": case["theorems"], "what": what}

    return generate, lean_ops, evaluate, describe
