"""Shared by c07 / c08: building real Dimension objects / cube responses with ordering
transforms, translating compact insertion descriptions to real insertion dicts and to the
Lean driver's encoding, and reading orders back from the library."""
import copy
import itertools

import gen
import common

# ---------------------------------------------------------------------------------------
# compact insertion description  ->  real dict  /  Lean RawIns
#   {"anchor": None|int|str, "id": int|None, "args": [ids], "neg": [ids], "kind": str, "kw": bool}
# kind: ok | nondict | fn | hide | noname | noanchor | empty


def ins_real(k, ins):
    kind = ins.get("kind", "ok")
    if kind == "nondict":
        return None
    d = {"function": "subtotal", "name": "S%d" % k, "anchor": ins.get("anchor")}
    args = list(ins.get("args", []))
    neg = list(ins.get("neg", []))
    if kind == "empty":
        args, neg = [], []
    if ins.get("kw"):
        d["kwargs"] = {"positive": args}
        if neg:
            d["kwargs"]["negative"] = neg
    else:
        d["args"] = args
        if neg:
            d["kwargs"] = {"negative": neg}
    if ins.get("id") is not None:
        d["id"] = ins["id"]
    if kind == "fn":
        d["function"] = "any_selected"
    if kind == "hide":
        d["hide"] = True
    if kind == "noname":
        del d["name"]
    if kind == "noanchor":
        del d["anchor"]
    return d


def ins_lean(ins):
    kind = ins.get("kind", "ok")
    args = [] if kind == "empty" else list(ins.get("args", []))
    neg = [] if kind == "empty" else list(ins.get("neg", []))
    return {"is_dict": kind != "nondict", "is_subtotal": kind != "fn", "hide": kind == "hide",
            "has_keys": kind not in ("noname", "noanchor"), "positive": args, "negative": neg,
            "anchor": ins.get("anchor"), "id": ins.get("id")}


def ins_valid(ins, valid_ids):
    kind = ins.get("kind", "ok")
    if kind != "ok":
        return False
    return bool(set(ins.get("args", [])) | set(ins.get("neg", []))) and \
        bool((set(ins.get("args", [])) | set(ins.get("neg", []))) & set(valid_ids))


# ---------------------------------------------------------------------------------------
# synthetic dimension dicts (seam: collator classes with REAL Dimension objects)
#   elems: [{"id": int|str, "missing": bool, "derived": bool, "anchor": None|"top"|"bottom"|{"alias","position"}}]


def cat_dimension_dict(elems, view):
    cats = [{"id": e["id"], "name": e.get("name", "c%s" % e["id"]), "missing": bool(e.get("missing")),
             "numeric_value": None} for e in elems]
    refs = {"alias": "v", "name": "V"}
    if view is not None:
        refs["view"] = {"transform": {"insertions": [ins_real(k, i) for k, i in enumerate(view)]}}
    return {"references": refs, "type": {"class": "categorical", "ordinal": False, "categories": cats}}


def mr_dimension_dict(elems):
    els = []
    for k, e in enumerate(elems):
        refs = {"alias": e["id"], "name": e.get("name", "item %s" % e["id"])}
        if e.get("derived") and e.get("anchor") is not None:
            refs["anchor"] = e["anchor"]
        els.append({"id": k + 1, "missing": bool(e.get("missing")),
                    "value": {"id": "%04d" % (k + 1), "derived": bool(e.get("derived")), "references": refs}})
    return {"references": {"alias": "m", "name": "M", "is_dichotomous": True},
            "type": {"class": "enum", "elements": els, "subtype": {"class": "variable"}}}


def dim_transforms(case_dim):
    """transforms dict of one dimension from the compact description."""
    t = {}
    if case_dim.get("insertions") is not None:
        t["insertions"] = [ins_real(k + 100, i) for k, i in enumerate(case_dim["insertions"])]
    hide = case_dim.get("hide") or []
    if hide:
        t["elements"] = {}
        for k, h in enumerate(hide):
            key = str(h) if (case_dim.get("hide_str") and isinstance(h, int)) else h
            t["elements"][key] = {"hide": True}
    if case_dim.get("prune"):
        t["prune"] = True
    if case_dim.get("order") is not None:
        t["order"] = copy.deepcopy(case_dim["order"])
    return t


def lean_dim(case_dim, valid_elems, is_array=False):
    """the dimension part of a `collate_*` op."""
    valid_ids = [e["id"] for e in valid_elems]
    hidden = [i for i, e in enumerate(valid_elems) if e["id"] in (case_dim.get("hide") or [])]
    d = {"elems": [{"id": e["id"], "derived": bool(e.get("derived")), "anchor": e.get("anchor") if e.get("derived") else None}
                   for e in valid_elems],
         "hidden": hidden, "prune": bool(case_dim.get("prune")), "array_subvar": is_array}
    if case_dim.get("view") is not None:
        d["view"] = [ins_lean(i) for i in case_dim["view"]]
    if case_dim.get("insertions") is not None:
        d["insertions"] = [ins_lean(i) for i in case_dim["insertions"]]
    return d


def canon_order(x):
    """library order (tuple / ndarray, ints or 'ins_N' strings, numpy stringifies ints when
    mixed) -> list of int | 'ins_N'."""
    x = common.impl_canon(x)
    if isinstance(x, dict):
        return x
    out = []
    for v in x:
        if isinstance(v, str) and not v.startswith("ins_"):
            try:
                v = int(v)
            except ValueError:
                pass
        out.append(v)
    return out


# ---------------------------------------------------------------------------------------
# anchors for generators


def anchor_pool(ids, stale):
    """every spelling of every anchor kind for the given valid ids."""
    pool = ["top", "bottom", "TOP", "Bottom", None, stale, str(stale)]
    for i in ids:
        pool.append(i)
        pool.append(str(i))
    return pool


def rand_insertions(rng, ids, all_ids, n, idless=0.3, bad=0.15, words=True):
    """n compact insertions over valid ids `ids`; `all_ids` includes missing ones."""
    stale = max([i for i in all_ids if isinstance(i, int)] + [0]) + 7
    pool = anchor_pool(ids, stale) + [i for i in all_ids if i not in ids]
    out = []
    used = set()
    for k in range(n):
        a = rng.choice(pool)
        if not words and isinstance(a, str) and not a.lstrip("-").isdigit() and a not in ("top", "bottom"):
            a = a.lower()
        args = rng.sample(all_ids, rng.randint(1, min(3, len(all_ids)))) if all_ids else []
        if rng.random() < 0.15:
            args.append(stale)
        neg = []
        if rng.random() < 0.2 and all_ids:
            neg = rng.sample(all_ids, 1)
        iid = None
        if rng.random() >= idless:
            iid = rng.choice([j for j in range(1, 3 * n + 3) if j not in used])
            used.add(iid)
        kind = "ok"
        if rng.random() < bad:
            kind = rng.choice(["nondict", "fn", "hide", "noname", "noanchor", "empty"])
        out.append({"anchor": a, "id": iid, "args": args, "neg": neg, "kind": kind, "kw": rng.random() < 0.3})
    return out
