"""C13 -- pairwise column tests: statistic, p-value, index sets.

Observed through the public API of the real library (`_Slice`):
  pairwise_significance_t_stats(c) / p_vals(c), pairwise_indices, pairwise_indices_alt,
  pairwise_significance_means_t_stats(c) / p_vals(c), pairwise_means_indices(_alt)
against
  (spec)  the property's formula evaluated on respondent-level p_x, n_x -- twice: by the Lean
          `PairwiseSpec` driver op and by a direct Python oracle on the generated survey
  (model) the Lean model `Pairwise.PwIn.t/p`, `MeansIn.t/p`, `OvIn.t/p`, `alphaValues`
          fed with the survey's tabulated counts / bases.
Secondary observation (own locus, never masks the primary ones): the legacy
`pairwise_significance_tests[c].t_stats` path.
"""
from fractions import Fraction as F
import copy
import json
import math
import gen
import common
from props import pw_util as U

PROPERTY = "C13"
LEAN_MODULE = ["CrCube.Props.C13", "CrCube.Props.C13_Disjoint"]
THEOREMS = [
    "CrCube.C13.t_def",
    "CrCube.C13.varSum_ok",
    "CrCube.C13.p_def",
    "CrCube.C13.t_cell_def",
    "CrCube.C13.effective_base_def",
    "CrCube.C13.antisymmetric",
    "CrCube.C13.antisymmetric_cells",
    "CrCube.C13.self_zero",
    "CrCube.C13.symmetric_p",
    "CrCube.C13.self_p_one",
    "CrCube.C13.only_larger_iff_smaller",
    "CrCube.C13.indices_def",
    "CrCube.C13.never_self",
    "CrCube.C13.self_not_significant",
    "CrCube.C13.overlap_self_included_without_mask",
    "CrCube.C13.alt_superset",
    "CrCube.C13.indices_follow_display",
    "CrCube.C13.alpha_parse",
    "CrCube.C13.alpha_sorted",
    "CrCube.C13.welch_def",
    "CrCube.C13.welch_subtotal_nan",
    "CrCube.C13.welch_antisymmetric",
    "CrCube.C13.overlap_path_iff_both_measures",
    "CrCube.C13.overlap_def",
    "CrCube.C13.overlap_antisymmetric",
    "CrCube.C13.overlap_self_zero",
    "CrCube.C13.overlap_disjoint_den_nan",
    "CrCube.C13.overlap_disjoint_t",
    "CrCube.C13.overlap_disjoint_never_significant",
]
RULE = ("2-D cubes and (one case in four) 3-D cubes with a cat / MR table dimension, every partition compared with the 2-D "
        "analysis of the survey restricted to the table element (numeric payloads: sub-tensor at the raw table position / "
        "selected plane); count cubes cat x cat, mr x cat, cat x mr, mr x mr from random surveys (unweighted; dyadic weights without / "
        "with a weighted_squared_count measure), additive and difference subtotals on both dimensions as selected or "
        "compared column / as row, explicit order + hide + prune on both dimensions, every alpha shape (absent, float, "
        "1-3 element lists sorted or not, malformed) and only_larger flag; mean cubes (mean, stddev, "
        "valid_count_unweighted) for Welch, incl. exactly two columns, and (round 6) mean cubes with every set of count measures "
        "(valid_count_unweighted / valid_count_weighted / weighted count present or absent, result.counts, all four arrays different: "
        "Welch's n is the unweighted valid count if given, else result.counts - never a weighted array), with the proportions test of the same cube read from the "
        "same slice object before and after the means test; MR columns with overlap / valid_overlap measures (both, only one, none: only both together take the overlap path), a third of them split-sample designs (groups of "
        "items shown to disjoint groups of respondents, nested items, never-shown items: N_ab = 0 or N_a = 0 with other pairs finite; the "
        "undefined pairs must read NaN and stay out of every index set) and a respondent-level oracle of the overlap-corrected statistic; a case is non-trivial "
        "when some displayed cell has a finite non-zero t; distinct = (kind, design, data) key")
ASSUMPTIONS = [
    "counts / column bases handed to the model are the survey's tabulation (C01/C02; cross-checked here against the "
    "library's own column proportions and bases through the block seam)",
    "display positions are read from the library's row_labels / column_labels (ordering itself is C05-C08)",
    "Student-t CDF: scipy.stats.t.cdf evaluates the Out.tTail2 terms; theorems assume only T(-x) = 1 - T(x) style facts "
    "as hypotheses",
    "index-set membership is not compared for cells whose p-value is within 1e-9 (relative) of alpha",
]
TRUSTED_EXTRA = ["Python thresholding of the evaluated Lean terms (p < alpha, t < 0) mirrors Pairwise.sig"]

ALPHAS = [0.001, 0.01, 0.05, 0.1, 0.2, 0.5, 0.9]


# ---------------------------------------------------------------------------------------
# generation


def gen_alpha(rng):
    """(python value or '__absent__', lean arg)"""
    r = rng.random()
    if r < 0.25:
        return "__absent__"
    if r < 0.35:
        return [rng.choice(ALPHAS)]
    if r < 0.75:
        return [rng.choice(ALPHAS), rng.choice(ALPHAS)]
    if r < 0.80:
        return [rng.choice(ALPHAS), rng.choice(ALPHAS), rng.choice(ALPHAS)]
    if r < 0.85:
        return rng.choice(ALPHAS)
    if r < 0.90:
        return rng.choice([None, [], 0.0, 0, ""])
    return rng.choice([[1.5], [0.0], [0.05, 1], [0.05, "x"], 1, "0.05", 1.0, [1], [0.5, 0.0], 2.5, -0.1,
                       [0.05, None], {"a": 1}])


def alpha_lean(a):
    def item(x):
        return gen.frac_str(F(x)) if isinstance(x, float) else None
    if a == "__absent__" or not a:
        return {"kind": "falsy"}
    if isinstance(a, float):
        return {"kind": "float", "x": gen.frac_str(F(a))}
    if isinstance(a, (list, tuple)):
        return {"kind": "list", "xs": [item(x) for x in a]}
    return {"kind": "other"}


def gen_pw_transform(rng):
    d = {}
    a = gen_alpha(rng)
    if a != "__absent__":
        d["alpha"] = a
    r = rng.random()
    if r < 0.35:
        d["only_larger"] = False
    elif r < 0.5:
        d["only_larger"] = True
    elif r < 0.55:
        d["only_larger"] = rng.choice([None, 0, "no"])
    return d


def gen_table_var(rng):
    return gen.gen_var(rng, rng.choice(["cat", "cat", "mr"]), "vt", n=rng.randint(1, 3), numeric="none")


def gen_counts_case(rng, table=False):
    design = rng.choice([("cat", "cat")] * 7 + [("mr", "cat")] * 2 + [("cat", "mr")] * 3 + [("mr", "mr")])
    vars_ = [gen.gen_var(rng, k, "v%d" % i, n=rng.choice([1, 2, 2, 3, 3, 4] if i == 0 else [1, 2, 3, 3, 4, 4, 5]),
                         numeric="none") for i, k in enumerate(design)]
    axes = U.axes_of(vars_)
    if table:
        vars_ = [gen_table_var(rng)] + vars_
    wmode = rng.choice(["unit"] * 3 + ["weighted"] * 3 + ["squared"] * 4)
    n_resp = rng.choice([0, 3, 10, 20, 30, 45, 60, 80])
    if table:
        n_resp *= 2
    sv = gen.gen_survey(rng, vars_, weighted=(wmode != "unit"), n_resp=n_resp, skew=rng.random() < 0.5)
    if wmode != "unit" and rng.random() < 0.25:
        # small / tiny exact weight scales: the effective base (sum w)^2 / sum w^2 and the test are scale-free, so a
        # squared-weight total of 1e-11 or 1e-24 is not "zero" (round 5: np.isclose(sum_w2, 0) fallback)
        scale = F(1, 2 ** rng.choice([20, 20, 40]))
        sv = [(w * scale, ans) for w, ans in sv]
    tr = {}
    if rng.random() < 0.8:
        tr["rows_dimension"] = U.gen_dim_transforms(rng, axes[0], p_prune=0.15)
        tr["columns_dimension"] = U.gen_dim_transforms(rng, axes[1], p_prune=0.15)
    pw = gen_pw_transform(rng)
    if pw or rng.random() < 0.3:
        tr["pairwise_indices"] = pw
    return {"type": "counts", "vars": [v.to_json() for v in vars_], "survey": gen.survey_to_json(sv),
            "wmode": wmode, "transforms": tr, "table": table}


W_MULT = [F(1, 4), F(1, 2), F(3, 4), F(5, 4), F(3, 2), F(2), F(3)]      # cell-wise (weighted n) / (unweighted n), never 1
MEAN_VALS = [F(-3), F(-1), F(0), F(1, 2), F(1), F(3, 2), F(2), F(5, 2), F(4), F(7)]
SD_VALS = [F(0), F(1, 4), F(1, 2), F(1), F(1), F(3, 2), F(2), F(3)]


def gen_means_case(rng, table=False):
    design = rng.choice([("cat", "cat")] * 5 + [("cat", "mr")] * 2 + [("mr", "cat")] * (6 if table else 2))
    few = rng.random() < 0.3          # few base columns, several inserted ones (negative indexes beyond the base width)
    two = table and rng.random() < 0.5   # exactly two columns: a 3-axis stddev block read on the wrong plane still has a legal shape
    vars_ = [gen.gen_var(rng, k, "v%d" % i, n=(rng.randint(1, 2) if (few and i == 1) else rng.randint(1, 4)),
                         numeric="none", allow_missing=not (two and i == 1)) for i, k in enumerate(design)]
    if two and design[1] == "cat":
        vars_[1] = gen.gen_var(rng, "cat", "v1", n=2, numeric="none", allow_missing=False)
    axes = U.axes_of(vars_)
    if table:
        vars_ = [gen_table_var(rng)] + vars_
    ncell = 1
    for s in gen.raw_shape(vars_):
        ncell *= s
    def cell(vals, p_missing):
        return [None if rng.random() < p_missing else gen.frac_str(rng.choice(vals)) for _ in range(ncell)]
    data = {"mean": cell(MEAN_VALS, 0.1), "stddev": cell(SD_VALS, 0.1),
            "n": [rng.choice([0, 1, 1, 2, 3, 5, 8, 13, 40]) for _ in range(ncell)]}
    tr = {}
    if rng.random() < 0.7 or few:
        tr["rows_dimension"] = U.gen_dim_transforms(rng, axes[0], p_prune=0.0)
        tr["columns_dimension"] = U.gen_dim_transforms(rng, axes[1], p_prune=0.0, p_ins=1.0 if few else 0.7)
    pw = gen_pw_transform(rng)
    if pw:
        tr["pairwise_indices"] = pw
    case = {"type": "means", "vars": [v.to_json() for v in vars_], "data": data, "transforms": tr, "table": table}
    if rng.random() < 0.5:
        # round 6: which count arrays the response carries.  Four DIFFERENT arrays per cell: n (valid_count_unweighted),
        # rc >= n (result.counts: every respondent of the cell), wn (valid_count_weighted), wc (weighted `count` measure).
        # Welch's n is an unweighted respondent count: n if the measure is there, else rc - whatever weighted arrays exist.
        case["msel"] = {"vcu": rng.random() < 0.45, "vcw": rng.random() < 0.65, "count": rng.random() < 0.7}
        data["rc"] = [n + rng.choice([0, 1, 2, 3, 7]) for n in data["n"]]
        data["wn"] = [gen.frac_str(n * rng.choice(W_MULT)) for n in data["n"]]
        data["wc"] = [gen.frac_str(n * rng.choice(W_MULT)) for n in data["rc"]]
    return case


MR_MISSING = 2      # answer code of a missing MR item (0 selected, 1 other)


def split_sample(rng, vars_, sv):
    """round 6: questionnaire designs in which not every item of the COLUMNS multiple-response variable is shown to
    everybody, so that some pairs of items have no respondent in common (N_ab = 0) although each has valid answers:
      forms   every respondent gets one of k questionnaire forms, every item belongs to one form or to all of them
      nested  item b is only asked of those who were NOT asked item a
      never   one item was shown to nobody (N_a = 0)
    Items not shown read missing.  The overlap-corrected statistic of such a pair is undefined (0/0)."""
    cv = len(vars_) - 1
    nsub = len(vars_[cv].items)
    mode = rng.choice(["forms"] * 4 + ["nested"] * 2 + ["never"])
    out = []
    if mode == "forms":
        k = rng.randint(2, 3)
        form_of = [rng.choice([None] + list(range(k)) * 2) for _ in range(nsub)]
        if nsub >= 2 and len({f for f in form_of if f is not None}) < 2:
            a, b = rng.sample(range(nsub), 2)
            form_of[a], form_of[b] = 0, 1
        for w, ans in sv:
            f = rng.randrange(k)
            ans = [list(x) for x in ans]
            for it in range(nsub):
                if form_of[it] is not None and form_of[it] != f:
                    ans[cv][it] = MR_MISSING
                elif form_of[it] == f and ans[cv][it] == MR_MISSING and rng.random() < 0.8:
                    ans[cv][it] = rng.choice([0, 1])
            out.append((w, ans))
        return out, {"mode": mode, "forms": form_of}
    if mode == "nested" and nsub >= 2:
        a, b = rng.sample(range(nsub), 2)
        for w, ans in sv:
            ans = [list(x) for x in ans]
            if ans[cv][a] != MR_MISSING:
                ans[cv][b] = MR_MISSING
            elif rng.random() < 0.8:
                ans[cv][b] = rng.choice([0, 1])
            out.append((w, ans))
        return out, {"mode": mode, "pair": [a, b]}
    a = rng.randrange(nsub)
    for w, ans in sv:
        ans = [list(x) for x in ans]
        ans[cv][a] = MR_MISSING
        out.append((w, ans))
    return out, {"mode": "never", "item": a}


def gen_overlap_case(rng, table=False):
    design = rng.choice([("cat", "mr")] * 2 + [("mr", "mr")])
    vars_ = [gen.gen_var(rng, k, "v%d" % i, n=rng.choice([1, 2, 2, 3, 3, 4]), numeric="none") for i, k in enumerate(design)]
    axes = U.axes_of(vars_)
    if table:
        vars_ = [gen_table_var(rng)] + vars_
    weighted = rng.random() < 0.5
    sv = gen.gen_survey(rng, vars_, weighted=weighted, n_resp=rng.choice([0, 5, 15, 30, 45, 60, 80]) * (2 if table else 1),
                        skew=False)
    split = None
    if rng.random() < 0.35:
        sv, split = split_sample(rng, vars_, sv)
    tr = {}
    if rng.random() < 0.7:
        tr["rows_dimension"] = U.gen_dim_transforms(rng, axes[0], p_prune=0.0)
        tr["columns_dimension"] = U.gen_dim_transforms(rng, axes[1], p_prune=0.0, p_ins=0.0)
    pw = gen_pw_transform(rng)
    if pw:
        tr["pairwise_indices"] = pw
    return {"type": "overlap", "vars": [v.to_json() for v in vars_], "survey": gen.survey_to_json(sv),
            "wmode": "weighted" if weighted else "unit", "transforms": tr, "table": table, "split": split,
            # which of the two overlap measures the response carries: only "both" switches to the overlap-corrected test
            "ovm": rng.choice(["both"] * 5 + ["overlap"] * 2 + ["valid"] * 2 + ["none"])}


def generate(ctx):
    rng = ctx.rng
    out = []
    for _ in range(ctx.n(240, 6000)):
        r = rng.random()
        table = rng.random() < 0.25        # 3-D cube: every partition against the 2-D analysis of the restricted survey
        if r < 0.62:
            out.append(gen_counts_case(rng, table))
        elif r < 0.82:
            out.append(gen_means_case(rng, table))
        else:
            out.append(gen_overlap_case(rng, table))
    return out


# ---------------------------------------------------------------------------------------
# plan: everything derived from the case alone


def _load(case):
    vars_ = [gen.Var.from_json(d) for d in case["vars"]]
    survey = gen.survey_from_json(case["survey"]) if "survey" in case else None
    return vars_, survey


def _full_order(n, nsubs):
    return list(range(n)) + [k - nsubs for k in range(nsubs)]


def _subs_json(subs):
    return [{"add": a, "sub": s} for _, a, s in subs]


def _alpha_arg(case):
    pw = (case.get("transforms") or {}).get("pairwise_indices") or {}
    a = pw.get("alpha", "__absent__") if isinstance(pw, dict) else "__absent__"
    return a


def _only_larger(case):
    pw = (case.get("transforms") or {}).get("pairwise_indices") or {}
    return False if pw.get("only_larger", True) is False else True


def _extract(vars_, flat, axes):
    """raw flat cube data -> matrix over valid elements, the way the cube-measure classes do
    (valid elements only; selected plane of an MR axis)"""
    shape = gen.raw_shape(vars_)
    def at(ix):
        k = 0
        for s, i in zip(shape, ix):
            k = k * s + i
        return flat[k]
    r, c = axes
    out = []
    for i in range(r.n):
        row = []
        for j in range(c.n):
            ix = []
            ix += [r.pos[i]] if r.role == "cat" else [i, 0]
            ix += [c.pos[j]] if c.role == "cat" else [j, 0]
            row.append(at(ix))
        out.append(row)
    return out


def _kind(case):
    """which test answers: a response with MR columns takes the overlap-corrected path only when it carries BOTH
    the `overlap` and the `valid_overlap` measure (python twin of Pairwise.usesOverlapPath, cross-checked per case);
    otherwise it is an ordinary count cube"""
    if case["type"] == "overlap" and case.get("ovm", "both") != "both":
        return "counts"
    return case["type"]


MSEL_DEFAULT = {"vcu": True, "vcw": False, "count": False}


def _means_arrays(case):
    """(U, W): the flat raw arrays a mean cube's tests work on.
    U = unweighted cell counts (Welch's n, bases of the proportions test): valid_count_unweighted if the response has it,
        else result.counts;
    W = cell counts of the proportions test's proportions (`Cube.counts`): valid_count_weighted, else
        valid_count_unweighted, else the weighted `count` measure (if it differs from result.counts), else result.counts."""
    d = case["data"]
    ms = case.get("msel") or MSEL_DEFAULT
    n = [F(x) for x in d["n"]]
    rc = [F(x) for x in d.get("rc", d["n"])]
    u = n if ms["vcu"] else rc
    if ms["vcw"]:
        w = [F(x) for x in d["wn"]]
    elif ms["vcu"]:
        w = n
    elif ms["count"]:
        w = [F(x) for x in d["wc"]]
    else:
        w = rc
    return u, w


def _colbases_from_raw(vars_, flat, axes):
    """`column_bases` of the count extractor classes from a raw (integer) tensor"""
    shape = gen.raw_shape(vars_)
    def at(ix):
        k = 0
        for s_, i in zip(shape, ix):
            k = k * s_ + i
        return flat[k]
    r, c = axes
    out = []
    for i in range(r.n):
        row = []
        for j in range(c.n):
            cix = [c.pos[j]] if c.role == "cat" else [j, 0]
            if r.role == "cat":
                row.append(sum(at([p] + cix) for p in r.pos))
            else:
                row.append(at([i, 0] + cix) + at([i, 1] + cix))
        out.append(row)
    return out


def _plan2d(case):
    vars_, survey = _load(case)
    axes = U.axes_of(vars_)
    tr = case.get("transforms") or {}
    rsubs = U.subs_of(axes[0], tr.get("rows_dimension")) if axes[0].can_insert else []
    csubs = U.subs_of(axes[1], tr.get("columns_dimension")) if axes[1].can_insert else []
    plan = {"vars": vars_, "survey": survey, "axes": axes, "rsubs": rsubs, "csubs": csubs, "ops": [], "idx": {}}

    def add(name, op):
        plan["idx"][name] = len(plan["ops"])
        plan["ops"].append(op)

    add("alpha", {"op": "pw_alpha", "arg": alpha_lean(_alpha_arg(case))})
    if case["type"] == "overlap":
        ovm = case.get("ovm", "both")
        add("path", {"op": "pw_path", "cols_mr": axes[1].role == "mr", "overlap": ovm in ("both", "overlap"),
                     "valid_overlap": ovm in ("both", "valid")})
    nr, nc = axes[0].n, axes[1].n
    ro, co = _full_order(nr, len(rsubs)), _full_order(nc, len(csubs))
    if _kind(case) == "counts":
        wm = case["wmode"]
        wc, _, wcb = U.tabulate2(axes, survey, lambda w: w)
        _, _, ucb = U.tabulate2(axes, survey, lambda w: F(1))
        sq = None
        if wm == "squared":
            sq = U.tabulate2(axes, survey, lambda w: w * w)[2]
        if wm == "unit":
            wc, wcb = U.tabulate2(axes, survey, lambda w: F(1))[0], ucb
        plan.update(wc=wc, wcb=wcb, ucb=ucb, sq=sq)
        ucols = [ucb[0][j] if nr else F(0) for j in range(nc)]
        add("pw", {"op": "pw", "nr": nr, "nc": nc, "counts": U.fmat(wc), "wbases": U.fmat(wcb),
                   "ubases": U.fmat(ucb), "ucols_base": [U.fs(x) for x in ucols],
                   "sqbases": None if sq is None else U.fmat(sq),
                   "row_subs": _subs_json(rsubs), "col_subs": _subs_json(csubs),
                   "row_order": ro, "col_order": co})
        # respondent-level flags per full row / full column (additive members; differences are
        # never compared at spec level)
        resps = []
        r, c = axes
        for w, ans in survey:
            ww = w if wm != "unit" else F(1)
            rin, rvalid, cin = [], [], []
            for i in range(nr):
                if r.role == "cat":
                    rin.append(ans[r.vidx][0] == r.pos[i])
                    rvalid.append(ans[r.vidx][0] in r.pos)
                else:
                    rin.append(ans[r.vidx][i] == 0)
                    rvalid.append(ans[r.vidx][i] in (0, 1))
            for _, a, s in rsubs:
                rin.append(any(rin[k] for k in a))
                rvalid.append(rvalid[0] if nr else False)
            for j in range(nc):
                cin.append(ans[c.vidx][0] == c.pos[j] if c.role == "cat" else ans[c.vidx][j] == 0)
            for _, a, s in csubs:
                cin.append(any(cin[k] for k in a))
            resps.append({"w": U.fs(ww), "rin": rin, "rvalid": rvalid, "cin": cin})
        plan["resps"] = resps
        add("spec", {"op": "pw_spec", "resps": resps, "use_sq": wm == "squared",
                     "nfr": nr + len(rsubs), "nfc": nc + len(csubs)})
    elif _kind(case) == "means":
        d = case["data"]
        mm = _extract(vars_, d["mean"], axes)
        sd = _extract(vars_, d["stddev"], axes)
        uflat, wflat = _means_arrays(case)
        nn = U.fmat(_extract(vars_, uflat, axes))
        plan.update(mm=mm, sd=sd, nn=nn)
        add("means", {"op": "pw_means", "nr": nr, "nc": nc, "means": mm, "stddev": sd, "counts": nn,
                      "n_row_subs": len(rsubs), "n_col_subs": len(csubs), "row_order": ro, "col_order": co})
        # the proportions test of the same cube works on the (valid) counts: proportions from W, bases n from U
        cb = U.fmat(_colbases_from_raw(vars_, uflat, axes))
        wcb = U.fmat(_colbases_from_raw(vars_, wflat, axes))
        add("pw", {"op": "pw", "nr": nr, "nc": nc, "counts": U.fmat(_extract(vars_, wflat, axes)), "wbases": wcb, "ubases": cb,
                   "ucols_base": [cb[0][j] if nr else 0 for j in range(nc)], "sqbases": None,
                   "row_subs": _subs_json(rsubs), "col_subs": _subs_json(csubs), "row_order": ro, "col_order": co})
    else:
        ov, vov = overlap_tensors(axes, survey, case["wmode"] != "unit")
        plan.update(ov=ov, vov=vov)
        wfun = (lambda w: w) if case["wmode"] != "unit" else (lambda w: F(1))
        wc, _, wcb = U.tabulate2(axes, survey, wfun)
        props = [[None if wcb[i][j] == 0 else U.fs(wc[i][j] / wcb[i][j]) for j in range(nc)] for i in range(nr)]
        # subtotal rows: column proportions of the inserted rows; overlap bases of row 0
        for _, a, s in rsubs:
            row = []
            for j in range(nc):
                b = wcb[0][j] if nr else F(0)
                num = sum((wc[k][j] for k in a), F(0)) - sum((wc[k][j] for k in s), F(0))
                row.append(None if b == 0 else U.fs(num / b))
            props.append(row)
        sel, valid = overlap_bases(axes, ov, vov)
        sel += [sel[0] for _ in rsubs] if nr else []
        valid += [valid[0] for _ in rsubs] if nr else []
        plan["valid"] = valid
        add("ov", {"op": "pw_overlap", "props": props, "nsub": nc,
                   "sel": [U.fmat(m) for m in sel], "valid": [U.fmat(m) for m in valid]})
    return plan


def overlap_tensors(axes, survey, weighted):
    """raw `overlap` / `valid_overlap` measures of the back end for an (X, MR) cube, as nested
    lists over the RAW cube shape + (nsub,):
       overlap[.., a, s, b]       = weighted #(X cell, item a in category s, item b selected)
       valid_overlap[.., a, s, b] = weighted #(X cell, item a in category s, item b not missing)"""
    r, c = axes
    nsub = c.n
    def zeros():
        if r.role == "cat":
            return [[[[F(0)] * nsub for _ in range(3)] for _ in range(nsub)] for _ in range(len(r.var.cats))]
        return [[[[[F(0)] * nsub for _ in range(3)] for _ in range(nsub)] for _ in range(3)] for _ in range(r.n)]
    ov, vov = zeros(), zeros()
    for w, ans in survey:
        ww = w if weighted else F(1)
        ca = ans[c.vidx]
        if r.role == "cat":
            cells = [(ans[r.vidx][0],)]
        else:
            cells = [(i, ans[r.vidx][i]) for i in range(r.n)]
        for cell in cells:
            for a in range(nsub):
                for b in range(nsub):
                    tgt_o = ov[cell[0]] if len(cell) == 1 else ov[cell[0]][cell[1]]
                    tgt_v = vov[cell[0]] if len(cell) == 1 else vov[cell[0]][cell[1]]
                    if ca[b] == 0:
                        tgt_o[a][ca[a]][b] += ww
                    if ca[b] in (0, 1):
                        tgt_v[a][ca[a]][b] += ww
    return ov, vov


def overlap_tensors_nd(vars_, survey, weighted):
    """raw overlap / valid_overlap tensors of a 2-D (X, MR) or 3-D (T, X, MR) cube"""
    if len(vars_) == 2:
        return overlap_tensors(U.axes_of(vars_), survey, weighted)
    T = vars_[0]
    axes2 = U.axes_of(vars_[1:])
    def block(pred):
        return overlap_tensors(axes2, [(w, ans[1:]) for w, ans in survey if pred(ans[0])], weighted)
    if T.kind == "mr":
        cells = [[block(lambda a, i=i, s_=s_: a[i] == s_) for s_ in range(3)] for i in range(len(T.items))]
        return [[c[0] for c in row] for row in cells], [[c[1] for c in row] for row in cells]
    cells = [block(lambda a, p=p: a[0] == p) for p in range(len(T.cats))]
    return [c[0] for c in cells], [c[1] for c in cells]


def overlap_bases(axes, ov, vov):
    """`_CatXMrOverlaps` / `_MrXMrOverlaps` selected_bases, valid_bases per row: [row][a][b]"""
    r, c = axes
    nsub = c.n
    if r.role == "cat":
        s = [[sum((ov[p][a][0][b] for p in r.pos), F(0)) for b in range(nsub)] for a in range(nsub)]
        v = [[sum((vov[p][a][0][b] + vov[p][a][1][b] for p in r.pos), F(0)) for b in range(nsub)] for a in range(nsub)]
        return [s for _ in range(r.n)], [v for _ in range(r.n)]
    sel, valid = [], []
    for i in range(r.n):
        sel.append([[ov[i][0][a][0][b] + ov[i][1][a][0][b] for b in range(nsub)] for a in range(nsub)])
        valid.append([[sum((vov[i][p][a][q][b] for p in (0, 1) for q in (0, 1)), F(0)) for b in range(nsub)]
                      for a in range(nsub)])
    return sel, valid


def overlap_oracle(axes, survey, weighted):
    """respondent level, straight from the survey (no tensors): for every base row i
         S[i][a][b] = weight of the respondents of the row's base who selected items a and b,
         N[i][a][b] = ... who validly answered items a and b            (a = b: the item's own counts)
         cnt[i][a] / base[i][a] = the column proportion of cell (i, a)"""
    r, c = axes
    nr, ns = r.n, c.n
    S = [[[F(0)] * ns for _ in range(ns)] for _ in range(nr)]
    N = [[[F(0)] * ns for _ in range(ns)] for _ in range(nr)]
    cnt = [[F(0)] * ns for _ in range(nr)]
    base = [[F(0)] * ns for _ in range(nr)]
    for w, ans in survey:
        ww = w if weighted else F(1)
        ca = ans[c.vidx]
        for i in range(nr):
            if not U._valid(r, ans, i):
                continue
            rsel = U._sel(r, ans, i)
            for a in range(ns):
                if ca[a] == 0:
                    base[i][a] += ww
                    if rsel:
                        cnt[i][a] += ww
                for b in range(ns):
                    if ca[a] == 0 and ca[b] == 0:
                        S[i][a][b] += ww
                    if ca[a] in (0, 1) and ca[b] in (0, 1):
                        N[i][a][b] += ww
    return S, N, cnt, base


def overlap_formula(S, N, cnt, base, i, a, b):
    """(t, p, exact) of the overlap-corrected test, evaluated in IEEE arithmetic (0/0 = NaN: an undefined proportion makes
    the statistic undefined); exact = False when the variance term cancels to exactly 0 over Q (floats then keep a rounding
    residue of either sign: not compared)"""
    import numpy as np
    from scipy.stats import t as tdist
    Sa, Sb, Sab, Na, Nb, Nab = S[i][a][a], S[i][b][b], S[i][a][b], N[i][a][a], N[i][b][b], N[i][a][b]
    exact = True
    if Na != 0 and Nb != 0 and Nab != 0:
        pa, pb, pab = Sa / Na, Sb / Nb, Sab / Nab
        if pa * (1 - pa) + pb * (1 - pb) + 2 * pa * pb - 2 * pab == 0:
            exact = False
    f = lambda x: np.float64(float(x))  # noqa
    with np.errstate(all="ignore"):
        pa, pb, pab = f(Sa) / f(Na), f(Sb) / f(Nb), f(Sab) / f(Nab)
        df = f(Na) + f(Nb) - f(Nab)
        cpa, cpb = f(cnt[i][a]) / f(base[i][a]), f(cnt[i][b]) / f(base[i][b])
        t_ = (cpb - cpa) / np.sqrt(1 / df * (pa * (1 - pa) + pb * (1 - pb) + 2 * pa * pb - 2 * pab))
        p_ = 2 * (1 - tdist.cdf(abs(t_), df=df - 2))
    return float(t_), float(p_), exact


def _table_parts(T):
    """raw index prefix of each partition of table variable T (valid categories / MR items' selected plane)"""
    if T.kind == "mr":
        return [[k, 0] for k in range(len(T.items))]
    return [[p] for p in T.valid_cat_pos]


def _in_table(T, prefix, tans):
    return tans[prefix[0]] == 0 if T.kind == "mr" else tans[0] == prefix[0]


def _subtensor(flat, shape, prefix):
    """flat row-major data of tensor[prefix...] (leading axes fixed)"""
    block = 1
    for n in shape[len(prefix):]:
        block *= n
    pos = 0
    for n, i in zip(shape, prefix):
        pos = pos * n + i
    return flat[pos * block:(pos + 1) * block]


def _subcases(case):
    """3-D case -> the 2-D case of each partition: the survey restricted to the respondents of table
    element k (numeric payloads: the sub-tensor at the raw table position / selected plane)"""
    vars3 = [gen.Var.from_json(d) for d in case["vars"]]
    T = vars3[0]
    shape3 = gen.raw_shape(vars3)
    out = []
    for prefix in _table_parts(T):
        sc = {k: v for k, v in case.items() if k not in ("table", "vars", "survey", "data")}
        sc["vars"] = case["vars"][1:]
        if "survey" in case:
            sc["survey"] = [[w, ans[1:]] for w, ans in case["survey"] if _in_table(T, prefix, ans[0])]
        if "data" in case:
            sc["data"] = {k: _subtensor(v, shape3, prefix) for k, v in case["data"].items()}
        out.append(sc)
    return out


def _plan(case):
    if not case.get("table"):
        return _plan2d(case)
    parts, ops = [], []
    for sc in _subcases(case):
        pl = _plan2d(sc)
        parts.append((sc, pl, len(ops)))
        ops.extend(pl["ops"])
    return {"parts": parts, "ops": ops}


def lean_ops(case):
    return _plan(case)["ops"]


# ---------------------------------------------------------------------------------------
# evaluation helpers


def _flatten(x):
    if isinstance(x, list):
        out = []
        for y in x:
            out.extend(_flatten(y))
        return out
    return [x]


def _ev(term):
    return common.model_to_float(term)


def _lt(a, b):
    return (a is not None and not math.isnan(a)) and a < b


def _near(p, alpha):
    return p is not None and not math.isnan(p) and abs(p - alpha) <= 1e-9 * max(abs(p), abs(alpha))


def _singular(m, g):
    def big(x):
        return isinstance(x, float) and not math.isnan(x) and abs(x) > 1e6
    return big(m) and big(g) and not (math.isinf(m) and math.isinf(g))


def _sig(p, t, alpha, only_larger):
    """mirror of Pairwise.sig on evaluated terms"""
    return _lt(p, alpha) and ((not only_larger) or _lt(t, 0.0))


def _t_formula(pa, na, pb, nb):
    import numpy as np
    with np.errstate(all="ignore"):
        pa, na, pb, nb = (np.float64(x) for x in (pa, na, pb, nb))
        return float((pb - pa) / np.sqrt(pa * (1 - pa) / na + pb * (1 - pb) / nb))


def _p_formula(t, df):
    import numpy as np
    from scipy.stats import t as tdist
    with np.errstate(all="ignore"):
        return float(2 * (1 - tdist.cdf(abs(np.float64(t)), df=np.float64(df))))


def _fdiv(a, b):
    if b == 0:
        return float("nan") if a == 0 else (float("inf") if a > 0 else float("-inf"))
    return float(F(a) / F(b))


def _impl_indices(x):
    """pairwise_indices ndarray-of-tuples -> nested lists of sorted ints (or passthrough)"""
    if isinstance(x, list):
        return [[sorted(int(k) for k in cell) if isinstance(cell, (list, tuple)) else cell for cell in row] for row in x]
    return x


def _mk_response(case, vars_, survey):
    if case["type"] == "counts":
        wm = case["wmode"]
        extra = None
        if wm == "squared":
            sq = gen.tabulate(vars_, [(w * w, a) for w, a in survey], True)
            extra = {"weighted_squared_count": [gen.num(x) for x in sq]}
        resp = gen.cube_response(vars_, survey, wm != "unit", extra_measures=extra)
        return resp
    if case["type"] == "means":
        d = case["data"]
        resp = gen.cube_response(vars_, [], False)
        res = resp["result"]
        def conv(xs):
            return [{"?": -8} if x is None else gen.num(F(x)) for x in xs]
        meta = res["measures"]["count"]["metadata"]
        res["measures"] = {
            "mean": {"data": conv(d["mean"]), "metadata": meta, "n_missing": 0},
            "stddev": {"data": conv(d["stddev"]), "metadata": meta, "n_missing": 0},
        }
        ms = case.get("msel") or MSEL_DEFAULT
        if ms["count"]:
            res["measures"]["count"] = {"data": [gen.num(F(x)) for x in d["wc"]], "metadata": {}, "n_missing": 0}
        if ms["vcu"]:
            res["measures"]["valid_count_unweighted"] = {"data": list(d["n"]), "metadata": meta, "n_missing": 0}
        if ms["vcw"]:
            res["measures"]["valid_count_weighted"] = {"data": [gen.num(F(x)) for x in d["wn"]], "metadata": meta, "n_missing": 0}
        res["counts"] = list(d.get("rc", d["n"]))
        res["n"] = sum(res["counts"])
        return resp
    # overlap
    weighted = case["wmode"] != "unit"
    ov, vov = overlap_tensors_nd(vars_, survey, weighted)
    resp = gen.cube_response(vars_, survey, weighted)
    res = resp["result"]
    c = U.axes_of(vars_[-2:])[1]
    meta = {"derived": True, "references": {}, "type": {"class": "numeric", "integer": not weighted,
            "missing_reasons": {"No Data": -1}, "missing_rules": {},
            "subvariables": [it["subvar_id"] for it in c.var.items]}}
    ovm = case.get("ovm", "both")
    if ovm in ("both", "overlap"):
        res["measures"]["overlap"] = {"data": [gen.num(x) for x in _flatten(ov)], "metadata": meta, "n_missing": 0}
    if ovm in ("both", "valid"):
        res["measures"]["valid_overlap"] = {"data": [gen.num(x) for x in _flatten(vov)], "metadata": meta, "n_missing": 0}
    return resp


class _Findings(list):
    """findings list that prefixes every detail with the partition it belongs to"""

    def __init__(self, where):
        super().__init__()
        self.where = where

    def append(self, f):
        if self.where:
            f = dict(f, detail=self.where + f["detail"])
        super().append(f)


def _cmp(findings, kind, locus, what, impl, expected):
    ok, where = common.deep_close(impl, expected)
    if not ok:
        findings.append({"kind": kind, "locus": locus,
                         "detail": "%s: impl%s (impl=%r expected=%r)" % (what, where, impl, expected)})
    return ok


def _alpha_expected(case):
    """Python twin of `_alpha_values` used only to know which alpha the index sets refer to"""
    a = _alpha_arg(case)
    if a == "__absent__" or not a:
        return (0.05, None), None
    if not isinstance(a, (float, list, tuple)):
        return None, "TypeError"
    if isinstance(a, float):
        return ((a, None), None) if 0.0 < a < 1.0 else (None, "ValueError")
    for x in a[:2]:
        if not isinstance(x, float) or not 0.0 < x < 1.0:
            return None, "ValueError"
    if len(a) == 1:
        return (a[0], None), None
    return tuple(sorted(a[:2])), None


# ---------------------------------------------------------------------------------------


def evaluate(case, louts, ctx):
    from cr.cube.cube import Cube
    plan = _plan(case)
    tr = case.get("transforms") or {}
    vars_all = [gen.Var.from_json(d) for d in case["vars"]]
    survey_all = gen.survey_from_json(case["survey"]) if "survey" in case else None
    resp = _mk_response(case, vars_all, survey_all)

    # round 5: in a third of the cases the slice under test is a SECOND partition object built on a Cube whose first
    # partition has already computed its pairwise results (arrays cached on the Cube - overlaps, valid overlaps,
    # squared weights - must not have been touched by the first one)
    warm = (len(json.dumps(case.get("survey", case.get("data")))) + len(case["vars"])) % 3 == 0

    def mk(k):
        # a FRESH cube each time (the library rewrites ids inside the dicts it is given)
        def build():
            cube = Cube(copy.deepcopy(resp), transforms=copy.deepcopy(tr))
            if not warm:
                return cube.partitions[k]
            from cr.cube.cubepart import CubePartition
            p0 = cube.partitions[k]
            for nm in ("pairwise_indices", "pairwise_indices_alt", "pairwise_means_indices"):
                common.call_impl(lambda: getattr(p0, nm))
            for fn in ("pairwise_significance_t_stats", "pairwise_significance_p_vals"):
                common.call_impl(lambda: getattr(p0, fn)(0))
            ctx.count("second-partition-on-warm-cube")
            return CubePartition.factory(cube, k, transforms=copy.deepcopy(tr))
        return build

    if not case.get("table"):
        return _eval_part(case, plan, louts, mk(0), ctx, "")
    nparts = common.call_impl(lambda: len(Cube(copy.deepcopy(resp), transforms=copy.deepcopy(tr)).partitions))
    ctx.count("3d:table-%s" % vars_all[0].kind)
    if nparts != len(plan["parts"]):
        return [{"kind": "spec", "locus": "3d.npartitions", "detail": "%r partitions, expected %d" % (
            nparts, len(plan["parts"]))}], None
    findings, key = [], None
    for k, (sc, pl, off) in enumerate(plan["parts"]):
        f, kk = _eval_part(sc, pl, louts[off:off + len(pl["ops"])], mk(k), ctx, "partition %d of a 3-D cube: " % k)
        findings.extend(f)
        if kk is not None:
            key = ("3d", vars_all[0].kind) + tuple(kk)
    return findings, key


def _eval_part(case, plan, louts, mkpart, ctx, where):
    """compare ONE slice (the only partition of a 2-D cube, or partition k of a 3-D cube) with the
    2-D analysis `plan` of (the restricted) `case`"""
    vars_, survey, axes = plan["vars"], plan["survey"], plan["axes"]
    rsubs, csubs = plan["rsubs"], plan["csubs"]
    L = lambda name: louts[plan["idx"][name]]  # noqa
    findings = _Findings(where)
    tr = case.get("transforms") or {}
    part = mkpart()
    nr, nc = axes[0].n, axes[1].n
    nfr, nfc = nr + len(rsubs), nc + len(csubs)
    ctx.count("type:%s" % case["type"])
    ctx.count("design:%sx%s" % (axes[0].role, axes[1].role))
    means = _kind(case) == "means"
    overlap = _kind(case) == "overlap"
    if means:
        ms = case.get("msel")
        ctx.count("means:count-measures:%s" % ("default" if not ms else "+".join(k for k in ("vcu", "vcw", "count") if ms[k]) or "none"))
    if case.get("split"):
        ctx.count("overlap:split-sample:%s" % case["split"]["mode"])
    if case["type"] == "overlap":
        if L("path")["overlap_path"] != overlap:
            raise common.HarnessFault("python twin of usesOverlapPath disagrees with Lean: %r" % (case.get("ovm"),))
        ctx.count("overlap-measures:%s" % case.get("ovm", "both"))

    # ---- alpha parsing (observable through which sets exist / which error is raised)
    la = L("alpha")
    (exp_alpha, exp_err) = _alpha_expected(case)
    if ("raises" in la) != (exp_err is not None) or (exp_err and la["raises"] != exp_err):
        raise common.HarnessFault("python alpha twin %r != Lean alphaValues %r" % ((exp_alpha, exp_err), la))
    idx_name, alt_name = ("pairwise_means_indices", "pairwise_means_indices_alt") if means else \
                         ("pairwise_indices", "pairwise_indices_alt")
    impl_idx = _impl_indices(common.call_impl(lambda: getattr(part, idx_name)))
    impl_alt = _impl_indices(common.call_impl(lambda: getattr(part, alt_name)))
    rl = common.call_impl(lambda: list(part.row_labels))
    cl = common.call_impl(lambda: list(part.column_labels))
    ro = U.signed_order(rl, axes[0], rsubs) if isinstance(rl, list) else None
    co = U.signed_order(cl, axes[1], csubs) if isinstance(cl, list) else None
    if ro is None or co is None:
        raise common.HarnessFault("cannot map labels to elements: %r %r" % (rl, cl))
    fr = [k if k >= 0 else nfr + k for k in ro]
    fc = [k if k >= 0 else nfc + k for k in co]
    if exp_err is not None:
        ctx.count("alpha:error")
        for nm, got in ((idx_name, impl_idx), (alt_name, impl_alt)):
            if nm == idx_name and len(co) == 0:
                continue      # alpha is only evaluated per displayed column: nothing to evaluate, nothing raised
            if not (isinstance(got, dict) and got.get("raises") == exp_err):
                findings.append({"kind": "model", "locus": "seam.alpha.error", "detail":
                                 "%s with alpha=%r: expected %s, got %r" % (nm, _alpha_arg(case), exp_err, got)})
        return findings, None
    alpha = float(F(la["alpha"]))
    alt = None if la["alt"] is None else float(F(la["alt"]))
    if not common.num_close(alpha, exp_alpha[0]) or (alt is None) != (exp_alpha[1] is None):
        raise common.HarnessFault("alpha twin mismatch")
    ctx.count("alpha:%s" % ("pair" if alt is not None else "single"))
    only_larger = _only_larger(case)
    ctx.count("only_larger:%s" % only_larger)

    # ---- model t / p tensors over FULL indices [a][row][b]
    if means:
        mT, mP = L("means")["t"], L("means")["p"]
    elif overlap:
        mT, mP = L("ov")["t"], L("ov")["p"]      # [a base][full row][b base]; no subtotal columns exist
    else:
        mT, mP = L("pw")["t"], L("pw")["p"]
    evT = [[[_ev(x) for x in row] for row in mat] for mat in mT]
    evP = [[[_ev(x) for x in row] for row in mat] for mat in mP]

    # ---- respondent level (counts cubes only)
    sT = sP = None
    diff_row = [bool(s[2]) for s in rsubs]
    diff_col = [bool(s[2]) for s in csubs]
    def row_is_diff(i):
        return i >= nr and diff_row[i - nr]
    def col_is_diff(j):
        return j >= nc and diff_col[j - nc]
    if _kind(case) == "counts":
        sp = L("spec")
        sT = [[[_ev(x) for x in row] for row in mat] for mat in sp["t"]]
        sP = [[[_ev(x) for x in row] for row in mat] for mat in sp["p"]]
        # python oracle of p_x, n_x
        resps = plan["resps"]
        use_sq = case["wmode"] == "squared"
        oprop = [[None] * nfc for _ in range(nfr)]
        obase = [[None] * nfc for _ in range(nfr)]
        for i in range(nfr):
            for j in range(nfc):
                cnt = sum((F(r["w"]) for r in resps if r["rin"][i] and r["cin"][j]), F(0))
                bs = sum((F(r["w"]) for r in resps if r["rvalid"][i] and r["cin"][j]), F(0))
                ub = sum((1 for r in resps if r["rvalid"][i] and r["cin"][j]), 0)
                sq = sum((F(r["w"]) ** 2 for r in resps if r["rvalid"][i] and r["cin"][j]), F(0))
                oprop[i][j] = _fdiv(cnt, bs)
                obase[i][j] = _fdiv(bs * bs, sq) if use_sq else float(ub)
        # block seam: the model's np.block'd proportions / bases vs the respondent-level ones
        # (additive rows / columns only)
        mprops = common.model_to_float(L("pw")["props"])
        mbases = common.model_to_float(L("pw")["bases"])
        for i in range(nfr):
            for j in range(nfc):
                if row_is_diff(i) or col_is_diff(j):
                    continue
                if not common.num_close(mprops[i][j], oprop[i][j]) or not common.num_close(mbases[i][j], obase[i][j]):
                    raise common.HarnessFault("model blocks != respondent level at (%d,%d): %r/%r vs %r/%r" % (
                        i, j, mprops[i][j], mbases[i][j], oprop[i][j], obase[i][j]))

    wtag = case.get("wmode", "means")
    if case["type"] == "overlap" and not overlap:
        wtag += ".overlap-measures-%s" % case.get("ovm")       # ordinary test expected: not both overlap measures
    nontrivial = False
    t_name, p_name = ("pairwise_significance_means_t_stats", "pairwise_significance_means_p_vals") if means else \
                     ("pairwise_significance_t_stats", "pairwise_significance_p_vals")
    # expected values per display column c: [r][b]
    ET, EP, SPEC_OK = [], [], []
    OV = None
    for c in range(len(co)):
        a = fc[c]
        it = common.call_impl(lambda: getattr(part, t_name)(c))
        ip = common.call_impl(lambda: getattr(part, p_name)(c))
        mt = [[evT[a][i][b] for b in fc] for i in fr]
        mp = [[evP[a][i][b] for b in fc] for i in fr]
        if isinstance(it, list) and isinstance(ip, list) and overlap:
            # the overlap variance term  (1/df)(pi_a(1-pi_a) + pi_b(1-pi_b) + 2 pi_a pi_b - 2 pi_ab)  can cancel to exactly 0
            # over Q (or df = 0 makes it inf * 0) while the floats keep a rounding residue of either sign
            # (0/0 = nan in the model, 0.0 / nan / huge in the library): rounding is not modelled, skip such cells
            vb = plan["valid"]
            for ri, i in enumerate(fr):
                for bi, b in enumerate(fc):
                    term = mT[a][i][b]
                    # (round 6) NOT skipped: a NaN variance term.  It arises only from an undefined proportion - N_a = 0,
                    # N_b = 0 or N_ab = 0 (then S = 0 too: 0/0), df = 0 implies N_a = 0 - and NaN propagates through every
                    # float operation whatever the rounding: t and p must read NaN and the pair stays out of the index sets
                    zero_den = isinstance(term, dict) and "divsqrt" in term and term["divsqrt"][1] == "0"
                    if zero_den and a != b and ri < len(it) and bi < len(it[ri]):
                        mt[ri][bi], mp[ri][bi] = it[ri][bi], ip[ri][bi]
                        ctx.count("cells:overlap-degenerate-skipped")
                    elif isinstance(term, dict) and "divsqrt" in term and term["divsqrt"][1] == "nan" and a != b:
                        ctx.count("cells:overlap-undefined-pair" + (
                            ":disjoint" if i < len(vb) and vb[i][a][b] == 0 and vb[i][a][a] != 0 and vb[i][b][b] != 0 else ""))
        if isinstance(it, list) and isinstance(ip, list) and not means and not overlap:
            # difference subtotals: "proportions" outside [0,1] can make the variance sum cancel to exactly 0 over Q
            # while the floats keep a 1e-17 residue (t = -inf vs -1.8e8): rounding is not modelled, skip such cells
            for ri, i in enumerate(fr):
                for bi, b in enumerate(fc):
                    if (row_is_diff(i) or col_is_diff(a) or col_is_diff(b)) and ri < len(it) and bi < len(it[ri]) \
                            and _singular(mt[ri][bi], it[ri][bi]):
                        mt[ri][bi], mp[ri][bi] = it[ri][bi], ip[ri][bi]
                        ctx.count("cells:difference-singular-skipped")
        if isinstance(it, dict) and "raises" in it:
            findings.append({"kind": "spec", "locus": "%s.raises-%s" % (t_name, it["raises"]), "detail":
                             "%s(%d) raises %s (signed column %d)" % (t_name, c, it["raises"], co[c])})
        else:
            _cmp(findings, "model", "seam.%s" % t_name, "selected display column %d (signed %d)" % (c, co[c]), it, mt)
        if overlap and isinstance(it, list) and isinstance(ip, list):
            # (round 6) the overlap-corrected statistic straight from the respondents (base rows, two different items)
            if OV is None:
                OV = overlap_oracle(axes, survey, case["wmode"] != "unit")
            for ri, i in enumerate(fr):
                for bi, b in enumerate(fc):
                    if i >= nr or a >= nc or b >= nc or a == b:
                        continue
                    ot, op, exact = overlap_formula(*OV, i, a, b)
                    if not exact:
                        continue
                    pair = "undefined-pair" if math.isnan(ot) and OV[1][i][a][b] == 0 else "pair"
                    g_t = it[ri][bi] if ri < len(it) and bi < len(it[ri]) else None
                    g_p = ip[ri][bi] if ri < len(ip) and bi < len(ip[ri]) else None
                    _cmp(findings, "spec", "overlap.t_stats.%s" % pair,
                         "t(a=%d,b=%d,row=%d) vs the respondent-level overlap formula (N_a=%s N_b=%s N_ab=%s)" % (
                             a, b, i, OV[1][i][a][a], OV[1][i][b][b], OV[1][i][a][b]), g_t, ot)
                    _cmp(findings, "spec", "overlap.p_vals.%s" % pair,
                         "p(a=%d,b=%d,row=%d) vs the respondent-level overlap formula (N_a=%s N_b=%s N_ab=%s)" % (
                             a, b, i, OV[1][i][a][a], OV[1][i][b][b], OV[1][i][a][b]), g_p, op)
        if overlap:
            # KNOWN: the overlap helper reports p = 0.0 for a column against itself (pinned by the
            # test-suite); compared under its own locus
            for r_ in range(len(fr)):
                if isinstance(ip, list) and c < len(ip[r_]) and not common.num_close(ip[r_][c], 1.0) \
                        and not (isinstance(ip[r_][c], float) and math.isnan(ip[r_][c])):
                    findings.append({"kind": "spec", "locus": "overlap.p_vals.self-not-one", "detail":
                                     "p_vals(%d)[%d][%d] = %r for a column against itself (t = 0 => p = 1)" % (
                                         c, r_, c, ip[r_][c])})
                    break
        if isinstance(ip, dict) and "raises" in ip:
            findings.append({"kind": "spec", "locus": "%s.raises-%s.%s-column-selected" % (
                p_name, ip["raises"], "subtotal" if co[c] < 0 else "base"), "detail":
                "%s(%d) raises %s (signed column %d, %d base columns)" % (p_name, c, ip["raises"], co[c], nc)})
        else:
            _cmp(findings, "model", "seam.%s" % p_name, "selected display column %d (signed %d)" % (c, co[c]), ip, mp)
        et, ep, ok = mt, mp, [[False] * len(fc) for _ in fr]
        if means and isinstance(it, list) and isinstance(ip, list) and a < nc:
            # Welch's test straight from the payload cells (base rows / columns; selected base column)
            import numpy as np
            mm_, sd_, nn_ = plan["mm"], plan["sd"], plan["nn"]
            def fl(x):
                return float("nan") if x is None else float(F(x))
            for ri, i in enumerate(fr):
                for bi, b in enumerate(fc):
                    if i >= nr or b >= nc:
                        continue
                    with np.errstate(all="ignore"):
                        m1, v1, n1 = np.float64(fl(mm_[i][b])), np.float64(fl(sd_[i][b])) ** 2, np.float64(fl(nn_[i][b]))
                        m0, v0, n0 = np.float64(fl(mm_[i][a])), np.float64(fl(sd_[i][a])) ** 2, np.float64(fl(nn_[i][a]))
                        wt = float((m1 - m0) / np.sqrt(v1 / n1 + v0 / n0))
                        df = (v1 / n1 + v0 / n0) ** 2 / ((v1 / n1) ** 2 / (n1 - 1) + (v0 / n0) ** 2 / (n0 - 1))
                        wp = _p_formula(wt, df)
                    g_t = it[ri][bi] if ri < len(it) and bi < len(it[ri]) else None
                    g_p = ip[ri][bi] if ri < len(ip) and bi < len(ip[ri]) else None
                    _cmp(findings, "spec", "welch.t_stats", "t(a=%d,b=%d,row=%d) vs Welch on the payload cells" % (a, b, i), g_t, wt)
                    _cmp(findings, "spec", "welch.p_vals", "p(a=%d,b=%d,row=%d) vs Welch on the payload cells" % (a, b, i), g_p, wp)
        if sT is not None and isinstance(it, list) and isinstance(ip, list):
            et = [row[:] for row in mt]
            ep = [row[:] for row in mp]
            for ri, i in enumerate(fr):
                for bi, b in enumerate(fc):
                    if row_is_diff(i) or col_is_diff(a) or col_is_diff(b):
                        ctx.count("cells:difference")
                        continue
                    ok[ri][bi] = True
                    ot = _t_formula(oprop[i][a], obase[i][a], oprop[i][b], obase[i][b])
                    op = _p_formula(ot, obase[i][a] + obase[i][b] - 2)
                    et[ri][bi], ep[ri][bi] = ot, op
                    tag = "%s.row-%s.sel-%s.cmp-%s" % (wtag, "subtotal" if i >= nr else "base",
                                                       "subtotal" if a >= nc else "base",
                                                       "subtotal" if b >= nc else "base")
                    g_t = it[ri][bi] if ri < len(it) and bi < len(it[ri]) else None
                    g_p = ip[ri][bi] if ri < len(ip) and bi < len(ip[ri]) else None
                    _cmp(findings, "spec", "t_stats.%s" % tag, "t(a=%d,b=%d,row=%d) vs python oracle" % (a, b, i), g_t, ot)
                    _cmp(findings, "spec", "t_stats.%s" % tag, "t(a=%d,b=%d,row=%d) vs Lean spec" % (a, b, i), g_t, sT[a][i][b])
                    _cmp(findings, "spec", "p_vals.%s" % tag, "p(a=%d,b=%d,row=%d) vs python oracle" % (a, b, i), g_p, op)
                    _cmp(findings, "spec", "p_vals.%s" % tag, "p(a=%d,b=%d,row=%d) vs Lean spec" % (a, b, i), g_p, sP[a][i][b])
                    if isinstance(ot, float) and math.isfinite(ot) and ot != 0.0:
                        nontrivial = True
        elif isinstance(it, list):
            for row in it:
                for x in row:
                    if isinstance(x, float) and math.isfinite(x) and x != 0.0:
                        nontrivial = True
        ET.append(et)
        EP.append(ep)
        SPEC_OK.append(ok)
        # sign flags of the model agree with the evaluated terms
        if _kind(case) == "counts":
            tn = L("pw")["tneg"][a]
            for i in range(nfr):
                for b in range(nfc):
                    v = evT[a][i][b]
                    if tn[i][b] != _lt(v, 0.0):
                        raise common.HarnessFault("divSqrtNeg disagrees with evaluation: %r vs %r" % (tn[i][b], v))
        # symmetry relations on the implementation itself (statement level)
        if isinstance(it, list) and isinstance(ip, list):
            for ri in range(len(fr)):
                if ri < len(it) and c < len(it[ri]):
                    x = it[ri][c]
                    if not (x == 0.0 or (isinstance(x, float) and math.isnan(x))):
                        findings.append({"kind": "spec", "locus": "t_stats.self-not-zero",
                                         "detail": "t_stats(%d)[%d][%d] = %r" % (c, ri, c, x)})
    # antisymmetry / symmetry across selected columns, on the implementation's own outputs
    tcache = {}
    for c in range(len(co)):
        tcache[c] = (common.call_impl(lambda: getattr(part, t_name)(c)), common.call_impl(lambda: getattr(part, p_name)(c)))
    for c1 in range(len(co)):
        for c2 in range(c1 + 1, len(co)):
            t1, p1 = tcache[c1]
            t2, p2 = tcache[c2]
            if not (isinstance(t1, list) and isinstance(t2, list) and isinstance(p1, list) and isinstance(p2, list)):
                continue
            for ri in range(len(fr)):
                x, y = t1[ri][c2], t2[ri][c1]
                if not common.num_close(x, -y if isinstance(y, float) else y) and not (
                        isinstance(x, float) and isinstance(y, float) and math.isnan(x) and math.isnan(y)):
                    findings.append({"kind": "spec", "locus": "t_stats.not-antisymmetric",
                                     "detail": "t(%d,%d)=%r t(%d,%d)=%r row %d" % (c1, c2, x, c2, c1, y, ri)})
                x, y = p1[ri][c2], p2[ri][c1]
                if not common.num_close(x, y):
                    findings.append({"kind": "spec", "locus": "p_vals.not-symmetric",
                                     "detail": "p(%d,%d)=%r p(%d,%d)=%r row %d" % (c1, c2, x, c2, c1, y, ri)})

    # ---- a mean cube also answers the proportions test (on its valid counts): both tests, read from
    # ---- the same slice object in either order, must be what a fresh object gives for each alone
    if means and len(fr) and len(fc):
        def read_props(sl):
            return {"t": [common.call_impl(lambda c=c: sl.pairwise_significance_t_stats(c)) for c in range(len(co))],
                    "p": [common.call_impl(lambda c=c: sl.pairwise_significance_p_vals(c)) for c in range(len(co))],
                    "idx": _impl_indices(common.call_impl(lambda: sl.pairwise_indices))}
        def read_means(sl):
            return {"t": [common.call_impl(lambda c=c: sl.pairwise_significance_means_t_stats(c)) for c in range(len(co))],
                    "p": [common.call_impl(lambda c=c: sl.pairwise_significance_means_p_vals(c)) for c in range(len(co))],
                    "idx": _impl_indices(common.call_impl(lambda: sl.pairwise_means_indices))}
        A = read_props(mkpart())
        B = read_means(mkpart())
        sC = mkpart()
        C1, C2 = read_props(sC), read_means(sC)
        sD = mkpart()
        D1, D2 = read_means(sD), read_props(sD)
        for nm, got, ref in (("proportions-read-first", C1, A), ("means-after-proportions", C2, B),
                             ("means-read-first", D1, B), ("proportions-after-means", D2, A)):
            for fld in ("t", "p", "idx"):
                ok_, where_ = common.deep_close(got[fld], ref[fld])
                if not ok_:
                    findings.append({"kind": "spec", "locus": "read-order.%s" % nm, "detail":
                                     "%s of the %s differ%s from what a fresh slice object returns" % (
                                         fld, nm.replace("-", " "), where_)})
                    break
        pwm = L("pw")
        for c in range(len(co)):
            a = fc[c]
            et_ = [[_ev(pwm["t"][a][i][b]) for b in fc] for i in fr]
            ep_ = [[_ev(pwm["p"][a][i][b]) for b in fc] for i in fr]
            if case.get("msel") and isinstance(A["t"][c], list) and isinstance(A["p"][c], list):
                # other count-measure sets: difference subtotals of a cube with a weighted valid-count measure read NaN in
                # the library (a count of valid answers is not differenced); C13 states nothing about them - additive
                # rows / columns only
                for ri, i in enumerate(fr):
                    for bi, b in enumerate(fc):
                        if (row_is_diff(i) or col_is_diff(a) or col_is_diff(b)) and ri < len(A["t"][c]) and bi < len(A["t"][c][ri]):
                            et_[ri][bi], ep_[ri][bi] = A["t"][c][ri][bi], A["p"][c][ri][bi]
            _cmp(findings, "model", "seam.means-cube.pairwise_significance_t_stats", "selected display column %d" % c,
                 A["t"][c], et_)
            _cmp(findings, "model", "seam.means-cube.pairwise_significance_p_vals", "selected display column %d" % c,
                 A["p"][c], ep_)
        ctx.count("means:both-tests-both-orders")

    # ---- index sets
    def expected_sets(al):
        out, near, allspec = [], [], []
        for ri in range(len(fr)):
            row, nrow, srow = [], [], []
            for c in range(len(co)):
                cell, nflag, sflag = [], False, True
                for bi in range(len(co)):
                    p_, t_ = EP[c][ri][bi], ET[c][ri][bi]
                    if _near(p_, al):
                        nflag = True
                    if bi == c:
                        continue     # never the column itself (repair F12 masks it explicitly)
                    if _sig(p_, t_, al, only_larger):
                        cell.append(bi)
                        ctx.count("indices:members")
                    if not SPEC_OK[c][ri][bi]:
                        sflag = False
                row.append(cell)
                nrow.append(nflag)
                srow.append(sflag)
            out.append(row)
            near.append(nrow)
            allspec.append(srow)
        return out, near, allspec

    def check_sets(name, got, al):
        if not isinstance(got, list):
            why = ("raises-%s" % got["raises"]) if isinstance(got, dict) and "raises" in got else "unavailable"
            findings.append({"kind": "spec", "locus": "%s.%s" % (name, why), "detail":
                             "got %r (col_order=%r, %d subtotal columns, %d base columns)" % (got, co, len(csubs), nc)})
            return
        exp, near, allspec = expected_sets(al)
        if len(got) != len(exp):
            findings.append({"kind": "spec", "locus": "%s.shape" % name, "detail": "%d rows vs %d" % (len(got), len(exp))})
            return
        for ri in range(len(exp)):
            for c in range(len(co)):
                g = got[ri][c] if c < len(got[ri]) else None
                if g is not None and c in g:
                    loc = "%s.self-included%s" % (name, ".overlap" if overlap else "")
                    findings.append({"kind": "spec", "locus": loc, "detail":
                                     "row %d column %d lists itself: %r (alpha=%r only_larger=%r)" % (ri, c, g, al, only_larger)})
                    if overlap:
                        g = [k for k in g if k != c]
                if near[ri][c]:
                    ctx.count("indices:near-alpha-skipped")
                    continue
                if g != exp[ri][c]:
                    kind = "spec" if (allspec[ri][c] or means or overlap) else "model"
                    loc = ("%s.membership" % name) if kind == "spec" else ("seam.%s" % name)
                    findings.append({"kind": kind, "locus": loc, "detail":
                                     "row %d column %d: impl %r expected %r (alpha=%r only_larger=%r col_order=%r)" % (
                                         ri, c, g, exp[ri][c], al, only_larger, co)})
    if len(fr) == 0 or len(fc) == 0:
        ctx.count("empty-display")
    else:
        check_sets(idx_name, impl_idx, alpha)
        if alt is None:
            if impl_alt is not None:
                findings.append({"kind": "spec", "locus": "%s.not-None" % alt_name, "detail": "got %r" % (impl_alt,)})
        else:
            check_sets(alt_name, impl_alt, alt)
            if isinstance(impl_idx, list) and isinstance(impl_alt, list):
                for ri in range(len(impl_idx)):
                    for c in range(len(impl_idx[ri])):
                        if not set(impl_idx[ri][c]) <= set(impl_alt[ri][c]):
                            findings.append({"kind": "spec", "locus": "%s.not-superset" % alt_name, "detail":
                                             "row %d col %d primary %r alt %r" % (ri, c, impl_idx[ri][c], impl_alt[ri][c])})

    # ---- secondary observation: legacy path (own locus)
    if _kind(case) == "counts" and axes[0].role == "cat" and axes[1].role == "cat" and sT is not None:
        leg = common.call_impl(lambda: [x.t_stats for x in part.pairwise_significance_tests])
        if isinstance(leg, list):
            for c in range(len(co)):
                bad = False
                for ri in range(len(fr)):
                    for bi in range(len(fc)):
                        if not SPEC_OK[c][ri][bi]:
                            continue
                        try:
                            g = leg[c][ri][bi]
                        except Exception:
                            g = None
                        if not common.num_close(g, ET[c][ri][bi]):
                            findings.append({"kind": "spec", "locus": "legacy.pairwise_significance_tests.t_stats.%s" % wtag,
                                             "detail": "legacy t_stats[%d][%d][%d] = %r, property formula gives %r" % (
                                                 c, ri, bi, g, ET[c][ri][bi])})
                            bad = True
                            break
                    if bad:
                        break
                if bad:
                    break

    key = None
    if nontrivial:
        if _kind(case) == "means":
            key = ("means", tuple(case["data"]["mean"]), tuple(case["data"]["n"]))
        else:
            key = (case["type"], axes[0].role, axes[1].role, case.get("wmode"), json_key(case["survey"]))
    return findings, key


def json_key(x):
    import json
    return json.dumps(x, sort_keys=True)


def describe(case):
    vars_, survey = _load(case)
    return {"type": case["type"], "kinds": [v.kind for v in vars_], "wmode": case.get("wmode"),
            "n_respondents": None if survey is None else len(survey), "transforms": case.get("transforms")}


def shrink_candidates(case):
    tr = case.get("transforms") or {}
    if "survey" in case:
        sv = case["survey"]
        n = len(sv)
        if n > 1:
            yield dict(case, survey=sv[: n // 2])
            yield dict(case, survey=sv[n // 2:])
        for i in range(min(n, 25)):
            yield dict(case, survey=sv[:i] + sv[i + 1:])
    if tr:
        for d in list(tr):
            t2 = {k: v for k, v in tr.items() if k != d}
            yield dict(case, transforms=t2)
            if isinstance(tr[d], dict):
                for kk in list(tr[d]):
                    t3 = dict(tr)
                    t3[d] = {k: v for k, v in tr[d].items() if k != kk}
                    yield dict(case, transforms=t3)
