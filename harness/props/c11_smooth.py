"""C11 extension — the statistics of the PLAIN proportions under a `smoother` dimension transform.

A `{"smoother": {"function": "one_sided_moving_avg", "window": w}}` entry in a dimension's transforms asks for the
`smoothed_*` measures (moving averages along a categorical-date dimension).  The property speaks of "the reported
variance of a row, column or table proportion": the weighted variance of the cell's indicator among the respondents of
the proportion's base, p(1 - p) with the PLAIN proportion p of that one period.  A moving average of the neighbouring
periods' proportions is no proportion of that base, so the twelve slice statistics and the three strand statistics must
be what they are without the smoother - whatever the window, whether the function is spelled out or defaulted, on
whichever dimension the smoother sits, and whatever smoothed measure the same request read before.

Family: slices whose COLUMNS are cat_date (rows cat / cat_date / mr / text), slices whose ROWS are cat_date (a smoother
on the rows dimension is not used by any slice measure), 3-D cubes ending in a cat_date, strands over cat_date, and a few
non-date dimensions (where the smoother falls back to the identity); 2-5 periods with missing periods anywhere;
smoother = {function: spelled / absent / null} x {window: absent, 1, 2, 3, #periods, #periods + 1}; 0-2 subtotal /
difference insertions on either dimension; weighted or not, with or without a numeric `mean` (what `smoothed_means`
smooths); in two thirds of the cases the smoothed measures (and the plain proportions) are read FIRST.

Judged by the base module's oracles: every displayed cell x 3 directions x 4 statistics against the Lean respondent-
level SPEC (kind "spec") and the Lean MODEL of the three-term formula (kind "model").
"""
from props import c11 as base
from props import stats_util as su

PROPERTY = "C11"
LEAN_MODULE = "CrCube.Props.C11"
THEOREMS = []
RULE = ("slices / 3-D cubes / strands with a categorical-date dimension (some non-date) carrying a smoother transform "
        "(function spelled / absent, window absent/1/2/3/#periods/#periods+1) on the columns and / or rows dimension, "
        "0-2 insertions per dimension, smoothed measures read first in 2/3 of the cases; every displayed cell x 3 "
        "directions x 4 statistics vs the respondent-level spec; non-trivial and distinct as in c11.py")
ASSUMPTIONS = ["'the reported variance of a column proportion' is the variance of the plain proportion; the smoothed_* "
               "measures are separate outputs and have no variance in the API"]
TRUSTED_EXTRA = []
EXHAUSTIVE = False

ROWS_FOR_DATE_COLS = ["cat", "cat", "cat", "mr", "mr", "cat_date", "text"]
SMOOTH_READS = ["smoothed_column_proportions", "smoothed_column_percentages", "smoothed_column_index",
                "smoothed_columns_scale_mean", "smoothed_means", "column_proportions", "column_index",
                "column_weighted_bases", "row_proportions", "table_proportions", "means"]


def gen_smoother(rng, n_periods):
    d = {}
    x = rng.random()
    if x < 0.7:
        d["function"] = "one_sided_moving_avg"
    elif x < 0.8:
        d["function"] = None
    w = rng.choice(["absent", 1, 2, 2, 3, 3, max(2, n_periods), max(2, n_periods), n_periods + 1])
    if w != "absent":
        d["window"] = w
    return d


def gen_case(rng):
    x = rng.random()
    if x < 0.55:
        shape, kinds = "2d", [rng.choice(ROWS_FOR_DATE_COLS), "cat_date"]
    elif x < 0.65:
        shape, kinds = "2d", ["cat_date", rng.choice(["cat", "mr", "cat_date"])]
    elif x < 0.75:
        shape, kinds = "3d", [rng.choice(["cat", "mr"]), rng.choice(["cat", "mr", "cat_date"]), "cat_date"]
    elif x < 0.9:
        shape, kinds = "strand", ["cat_date"]
    else:
        shape, kinds = "2d", [rng.choice(["cat", "mr"]), rng.choice(["cat", "datetime", "mr"])]
    case = base.gen_case(rng, shape=shape, kinds=kinds, n_resps=(5, 10, 20, 30, 40), n_valid=(2, 5), p_ins=0.5,
                         regimes=False, p_scale=0.05)
    vars_, _ = su.load_case(case)
    sm = {}
    last = "rows_dimension" if shape == "strand" else "columns_dimension"
    if rng.random() < 0.9:
        sm[last] = gen_smoother(rng, su.n_valid_elems(vars_[-1]))
    if shape != "strand" and (not sm or rng.random() < 0.25):
        sm["rows_dimension"] = gen_smoother(rng, su.n_valid_elems(vars_[-2]))
    case["smoother"] = sm
    if rng.random() < 0.5:
        case["extras"] = rng.choice([["mean"], ["mean"], ["weighted_squared_count", "mean"], ["sum"]])
    case["pre_reads"] = [a for a in SMOOTH_READS if rng.random() < 0.45] if rng.random() < 0.67 else []
    case["_mod"] = "c11_smooth"
    return case


def generate(ctx):
    return [gen_case(ctx.rng) for _ in range(ctx.n(45, 2500))]


lean_ops = base.lean_ops


def evaluate(case, louts, ctx):
    vars_, _ = su.load_case(case)
    ctx.count("smooth_kinds:" + su.kinds_key(vars_))
    for dkey, sm in sorted(case["smoother"].items()):
        n = su.n_valid_elems(vars_[-1] if (dkey == "columns_dimension" or len(vars_) == 1) else vars_[-2])
        w = sm.get("window", 2) or 2
        ctx.count("smooth_window:%s" % ("absent" if "window" not in sm else "1" if w < 2 else
                                        "beyond" if w > n else "all-periods" if w == n else "inside"))
    if case.get("pre_reads"):
        ctx.count("smooth_cases_reading_smoothed_measures_first")
    findings, key = base.evaluate(case, louts, ctx)
    for f in findings:
        f["locus"] = "smoother." + f["locus"]
    if key is not None:
        key = ("smoother", repr(sorted(case["smoother"].items()))) + tuple(key)
    return findings, key


def describe(case):
    return base.describe(case)


def shrink_candidates(case):
    for c in base.shrink_candidates(case):
        yield c
