"""Numeric measures and numeric arrays: respondent-level surveys -> REAL cube responses.

A respondent has a weight, one answer per grouping variable (as in gen.py) and, per numeric item
(one item for a plain numeric variable, `n_items` subvariables for a numeric array), a dyadic
value or None (missing).  Per raw group cell and item the back end reports

    valid_count_unweighted  number of respondents of the cell with a value          (respondent level)
    valid_count_weighted    their total weight                                      (respondent level)
    sum                     sum of w*x          (exact: dyadic)
    mean                    sum / weighted valid count, {"?": -8} when that is 0   (correctly rounded float)
    stddev                  weighted standard deviation, {"?": -8} below 2 values  (a float; carried as is)
    median                  plain median of the values, {"?": -8} when there is none

laid out row-major as (group dimensions ..., items) -- the layout of the real fixtures in
/repo/tests/fixtures/numeric_arrays (evidenced for at most 3 "all dimensions").  Property C01 only
requires the library to REPORT the carried value for the right cell; valid counts are the
counts / bases of numeric-array cubes and get respondent-level semantics (C02).
"""
from fractions import Fraction
import copy
import itertools
import math

import gen

VALUES = [Fraction(k, 4) for k in range(-6, 41)] + [Fraction(100), Fraction(1, 8), Fraction(-25, 2)]
NUMERIC_MEASURES = ("mean", "sum", "stddev", "median")
CAT_KINDS = ["cat", "cat", "cat", "cat_date", "datetime", "text", "binned"]


# ---------------------------------------------------------------------------------------
# case <-> objects


def load(case):
    vars_ = [gen.Var.from_json(d) for d in case["vars"]]
    survey = [(Fraction(w), ans, [None if x is None else Fraction(x) for x in vals])
              for w, ans, vals in case["survey"]]
    return vars_, survey


def survey_to_json(survey):
    return [[gen.frac_str(w), ans, [None if x is None else gen.frac_str(x) for x in vals]]
            for w, ans, vals in survey]


def n_items(case):
    return case["n_items"] if case["n_items"] is not None else 1


def is_array(case):
    return case["n_items"] is not None


def gen_num_survey(rng, vars_, nit, n_resp=None, weighted=True):
    base = gen.gen_survey(rng, vars_, n_resp=n_resp, weighted=weighted)
    pm = [rng.choice([0.0, 0.1, 0.3, 0.6, 1.0]) for _ in range(nit)]
    vals_pool = rng.sample(VALUES, rng.randint(2, 8))
    out = []
    for w, ans in base:
        vals = [None if rng.random() < pm[k] else rng.choice(vals_pool) for k in range(nit)]
        out.append((w, ans, vals))
    return out


def gen_case(rng, kinds, nit, array, max_n=3, n_resp=None, measures=None, vc=None, min_n=1):
    """kinds: grouping variable kinds; nit: number of items; array: numeric ARRAY (pseudo-dimension)."""
    vars_ = []
    for i, k in enumerate(kinds):
        if k == "ca":
            vars_.append(gen.gen_var(rng, "ca", "v%d" % i, n=rng.randint(min_n, max_n), ncat=rng.randint(2, 3)))
        else:
            vars_.append(gen.gen_var(rng, k, "v%d" % i, n=rng.randint(min_n, max_n),
                                     min_valid=min(min_n, 2)))
    weighted = rng.random() < 0.6
    survey = gen_num_survey(rng, vars_, nit, n_resp=n_resp, weighted=weighted)
    if measures is None:
        k = rng.choice([1, 1, 2, 2, 3, 4])
        measures = sorted(rng.sample(NUMERIC_MEASURES, k))
    if vc is None:
        vc = (rng.choice(["uw", "uw", "u", "u", "none", "w"]) if not array or nit == 1 else
              rng.choice(["uw"] * 6 + ["u"] * 6 + ["w", "none"]))
    ncell = 1
    for s in gen.raw_shape(vars_):
        ncell *= s
    ncell *= nit
    holes = {}
    null_holes = {}
    for m in measures:
        if ncell and rng.random() < 0.5:
            holes[m] = sorted(set(rng.randrange(ncell) for _ in range(rng.randint(1, 2))))
        # an unavailable value can also be carried as JSON null (Python None)
        if ncell and rng.random() < 0.5:
            null_holes[m] = sorted(set(rng.randrange(ncell) for _ in range(rng.randint(1, 2))))
    return {
        "vars": [v.to_json() for v in vars_],
        "n_items": nit if array else None,
        "survey": survey_to_json(survey),
        "weighted": weighted,
        "measures": list(measures),
        "vc": vc,
        "count_measure": rng.random() < 0.8,
        "holes": holes,
        "null_holes": null_holes,
        "null_for_nan": rng.random() < 0.4,
        "json_text": rng.random() < 0.3,
        "median_nested": rng.random() < 0.3,
        "missing": rng.choice([0, 0, 3]),
        "n_missing": {"mean": rng.choice([None, 0, 2]), "median": rng.choice([None, 1]),
                      "valid_count_unweighted": rng.choice([None, 0, 4])},
        "min_base": rng.choice([0, 1, 2, 3, 5]),
    }


# ---------------------------------------------------------------------------------------
# back-end tabulation


def _in_cell(vars_, ans, gix):
    pos = 0
    for v, a in zip(vars_, ans):
        r = len(v.raw_axes_shape())
        if not gen._member(v, a, gix[pos:pos + r]):
            return False
        pos += r
    return True


def cells(case):
    """{(raw group index tuple, item): stats dict} over EVERY raw cell (missing categories included)."""
    vars_, survey = load(case)
    nit = n_items(case)
    weighted = case["weighted"]
    out = {}
    gshape = gen.raw_shape(vars_)
    for gix in itertools.product(*[range(s) for s in gshape]):
        members = [(w if weighted else Fraction(1), vals) for w, ans, vals in survey if _in_cell(vars_, ans, gix)]
        for k in range(nit):
            xs = [(w, vals[k]) for w, vals in members if vals[k] is not None]
            vcu = Fraction(len(xs))
            vcw = sum((w for w, _ in xs), Fraction(0))
            sm = sum((w * x for w, x in xs), Fraction(0))
            mean = None if vcw == 0 else Fraction(float(sm / vcw))
            if len(xs) < 2 or vcw == 0:
                sd = None
            else:
                mu = sm / vcw
                var = sum((w * (x - mu) ** 2 for w, x in xs), Fraction(0)) / vcw
                sd = Fraction(math.sqrt(float(var)))
            if not xs:
                med = None
            else:
                srt = sorted(x for _, x in xs)
                h = len(srt) // 2
                med = srt[h] if len(srt) % 2 else (srt[h - 1] + srt[h]) / 2
            out[(gix, k)] = {"valid_count_unweighted": vcu, "valid_count_weighted": vcw, "sum": sm,
                             "mean": mean, "stddev": sd, "median": med}
    return out


def flat_index_order(case):
    vars_, _ = load(case)
    gshape = gen.raw_shape(vars_)
    nit = n_items(case)
    return [(gix, k) for gix in itertools.product(*[range(s) for s in gshape]) for k in range(nit)]


def payload(case):
    """measure name -> flat list of Fraction | ('?', code) in back-end order; plus counts lists."""
    vars_, survey = load(case)
    cs = cells(case)
    order = flat_index_order(case)
    plain = [(w, ans) for w, ans, _ in survey]
    out = {"counts": gen.tabulate(vars_, plain, False)}
    if case["count_measure"]:
        out["count"] = gen.tabulate(vars_, plain, case["weighted"])
    for m in case["measures"]:
        data = []
        for pos, key in enumerate(order):
            v = cs[key][m]
            if pos in case.get("null_holes", {}).get(m, []):
                data.append(("null", None))
            elif pos in case["holes"].get(m, []):
                data.append(("?", -1))
            elif v is None:
                data.append(("null", None) if case.get("null_for_nan") else ("?", -8))
            else:
                data.append(v)
        out[m] = data
    if case["vc"] in ("u", "uw"):
        out["valid_count_unweighted"] = [cs[key]["valid_count_unweighted"] for key in order]
    if case["vc"] in ("w", "uw"):
        out["valid_count_weighted"] = [cs[key]["valid_count_weighted"] for key in order]
    return out


def _json_cell(x):
    if isinstance(x, tuple):
        return None if x[0] == "null" else {"?": x[1]}
    return _num(x)


def _num(x):
    """JSON number carrying exactly the Fraction (all generated values are binary64-representable)."""
    x = Fraction(x)
    if x.denominator == 1 and abs(x.numerator) < 2 ** 53:
        return int(x)
    f = x.numerator / x.denominator
    assert Fraction(f) == x, x
    return f


def measure_metadata(case):
    meta = {"derived": True, "references": {"alias": "numvar", "name": "Num Var", "description": "a numeric"},
            "type": {"class": "numeric", "integer": False, "missing_reasons": {"No Data": -1, "NaN": -8},
                     "missing_rules": {}}}
    if is_array(case):
        n = case["n_items"]
        meta["references"]["subreferences"] = [{"alias": "item_%d" % i, "name": "Item %d" % i} for i in range(n)]
        meta["references"]["uniform_basis"] = False
        meta["type"]["subvariables"] = ["%04d" % (i + 1) for i in range(n)]
    return meta


def response(case):
    """the REAL cube response dict."""
    vars_, survey = load(case)
    pl = payload(case)
    dims = []
    for v in vars_:
        dims.extend(v.dimension_dicts())
    result = {"counts": [_num(x) for x in pl["counts"]], "dimensions": dims, "element": "crunch:cube",
              "measures": {}, "missing": case["missing"], "n": len(survey)}
    if "count" in pl:
        result["measures"]["count"] = {
            "data": [_num(x) for x in pl["count"]],
            "metadata": {"derived": True, "references": {},
                         "type": {"class": "numeric", "integer": not case["weighted"],
                                  "missing_reasons": {"No Data": -1}, "missing_rules": {}}},
            "n_missing": case["missing"]}
    nit = n_items(case)
    for name in list(case["measures"]) + ["valid_count_unweighted", "valid_count_weighted"]:
        if name not in pl:
            continue
        data = [_json_cell(x) for x in pl[name]]
        if name == "median" and case.get("median_nested") and nit > 1 and data:
            data = [data[i:i + nit] for i in range(0, len(data), nit)]
        entry = {"data": data, "metadata": copy.deepcopy(measure_metadata(case))}
        nm = case["n_missing"].get(name)
        if nm is not None:
            entry["n_missing"] = nm
        result["measures"][name] = entry
    return {"query": {}, "result": result}


# ---------------------------------------------------------------------------------------
# Lean ops


def _lean_cells(data):
    return [(None if x[0] == "null" else {"?": x[1]}) if isinstance(x, tuple) else gen.frac_str(x) for x in data]


def lean_payload(case):
    pl = payload(case)
    nm = case["n_missing"]
    p = {"counts": [gen.frac_str(x) for x in pl["counts"]],
         "count": [gen.frac_str(x) for x in pl["count"]] if "count" in pl else None,
         "vcu": [gen.frac_str(x) for x in pl["valid_count_unweighted"]] if "valid_count_unweighted" in pl else None,
         "vcw": [gen.frac_str(x) for x in pl["valid_count_weighted"]] if "valid_count_weighted" in pl else None,
         "missing": case["missing"],
         "vcu_n_missing": nm.get("valid_count_unweighted"), "mean_n_missing": nm.get("mean"),
         "median_n_missing": nm.get("median")}
    for m in NUMERIC_MEASURES:
        p[m] = _lean_cells(pl[m]) if m in pl else None
    return p


def lean_ops(case):
    vars_, survey = load(case)
    lv = [v.lean() for v in vars_]
    pl = payload(case)
    api = {"op": "num_api", "vars": lv, "n_items": case["n_items"], "payload": lean_payload(case),
           "size": case.get("min_base", 0)}
    cells_ = {m: _lean_cells(pl[m]) for m in NUMERIC_MEASURES if m in pl}
    for m in ("valid_count_unweighted", "valid_count_weighted"):
        if m in pl:
            cells_[m] = [gen.frac_str(x) for x in pl[m]]
    sv = [{"w": gen.frac_str(w), "ans": ans + [[0 if x is not None else 1 for x in vals]]}
          for w, ans, vals in survey]
    spec = {"op": "num_spec", "vars": lv, "n_items": case["n_items"], "cells": cells_, "survey": sv}
    return [api, spec]


# ---------------------------------------------------------------------------------------
# misc


def apparent_kinds(case):
    vars_, _ = load(case)
    ks = ["numarr"] if is_array(case) else []
    for v in vars_:
        ks.extend(v.apparent_kinds())
    return ks


def all_dims(case):
    vars_, _ = load(case)
    return (1 if is_array(case) else 0) + len(gen.raw_shape(vars_))


def describe(case):
    vars_, survey = load(case)
    return {"kinds": apparent_kinds(case), "n_items": case["n_items"], "raw_group_shape": gen.raw_shape(vars_),
            "n_respondents": len(survey), "weighted": case["weighted"], "measures": case["measures"],
            "valid_counts": case["vc"], "count_measure": case["count_measure"], "holes": case["holes"],
            "null_holes": case.get("null_holes"), "json_text": case.get("json_text"),
            "missing_flags": [v.cat_missing for v in vars_], "first_respondents": case["survey"][:3]}


def shrink_candidates(case):
    sv = case["survey"]
    n = len(sv)
    if n > 1:
        yield dict(case, survey=sv[: n // 2])
        yield dict(case, survey=sv[n // 2:])
    for i in range(min(n, 25)):
        yield dict(case, survey=sv[:i] + sv[i + 1:])
    if any(w != "1" for w, _, _ in sv):
        yield dict(case, survey=[["1", a, v] for _, a, v in sv])
    if case["holes"]:
        yield dict(case, holes={})
    if case.get("null_holes"):
        yield dict(case, null_holes={})
    if len(case["measures"]) > 1:
        for m in case["measures"]:
            yield dict(case, measures=[x for x in case["measures"] if x != m],
                       holes={k: v for k, v in case["holes"].items() if k != m},
                       null_holes={k: v for k, v in case.get("null_holes", {}).items() if k != m})


# ---------------------------------------------------------------------------------------
# differential evaluation shared by c01_numeric / c01_numarr / c02_numarr

import common  # noqa: E402

C01_SLICE = ["counts", "unweighted_counts", "means", "sums", "stddev", "medians"]
C02_SLICE = ["row_weighted_bases", "column_weighted_bases", "table_weighted_bases",
             "row_unweighted_bases", "column_unweighted_bases", "table_unweighted_bases"]
C02_SLICE_DERIVED = ["rows_margin", "columns_margin", "rows_base", "columns_base", "table_margin", "table_base",
                     "table_base_range", "table_margin_range"]
C01_STRAND = ["counts", "unweighted_counts", "means", "sums", "stddev", "medians"]
C02_STRAND = ["weighted_bases", "unweighted_bases"]
C02_STRAND_DERIVED = ["rows_base", "rows_margin", "table_base_range", "table_margin_range"]
CUBE_OUT = ["counts", "unweighted_counts", "weighted_counts", "has_weighted_counts", "means", "sums", "stddev",
            "medians", "unweighted_valid_counts", "weighted_valid_counts", "missing"]
MEASURE_OF = {"means": "mean", "sums": "sum", "stddev": "stddev", "medians": "median"}


def impl_get(fn):
    """library value; an exception and None are both 'absent' (None)."""
    v = common.call_impl(fn)
    if isinstance(v, dict) and set(v) == {"raises"}:
        return None
    return v


def _cmp(findings, kind, locus, impl, expected, detail):
    ok, where = common.deep_close(impl, expected)
    if not ok:
        findings.append({"kind": kind, "locus": locus,
                         "detail": "%s impl%s | impl=%s expected=%s" % (detail, where, _short(impl), _short(expected))})
    return ok


def _short(x):
    s = repr(x)
    return s if len(s) < 300 else s[:300] + "..."


def make_cube(case):
    from cr.cube.cube import Cube
    kw = {}
    if case.get("min_base"):
        kw["mask_size"] = case["min_base"]
    resp = response(case)
    if case.get("json_text"):
        import json
        resp = json.dumps(resp)
    return Cube(resp, **kw)


def weighted_source(case):
    """which payload the WEIGHTED count outputs read (decision logic of Cube.counts /
    CubeMeasures.weighted_cube_counts): 'w' valid, 'u' valid, or 'plain' counts."""
    if case["vc"] in ("w", "uw"):
        return "w"
    if case["vc"] == "u":
        return "u"
    return "plain"


def unweighted_source(case):
    return "u" if case["vc"] in ("u", "uw") else "plain"


def evaluate_case(case, louts, ctx, scope, pre):
    """scope: 'c01' (cells) or 'c02' (bases).  pre: locus prefix ('numeric' / 'numarr')."""
    api, spec = louts
    findings = []
    f2 = common.model_to_float
    cube = make_cube(case)
    kinds = apparent_kinds(case)
    ctx.count("%s.kinds:%s" % (pre, "x".join(kinds) or "nub"))
    ctx.count("%s.vc:%s" % (pre, case["vc"]))
    nd = len(kinds)
    if common.call_impl(lambda: cube.ndim) != api["ndim"]:
        return [{"kind": "model", "locus": "%s.ndim" % pre, "detail": "ndim %r vs %r" % (cube.ndim, api["ndim"])}], None
    wsrc, usrc = weighted_source(case), unweighted_source(case)
    weighted_is_respondent = wsrc == "w" or (wsrc == "u" and not case["weighted"])
    key = None
    distinct = set()

    if scope == "c01":
        for name in CUBE_OUT:
            impl = impl_get(lambda: getattr(cube, name))
            _cmp(findings, "model", "%s.cube.%s" % (pre, name), impl, f2(api["cube"][name]), "Cube.%s" % name)
        exp_order = api["order"]
        impl_order = common.call_impl(lambda: list(cube._all_dimensions.dimension_order))
        _cmp(findings, "model", "%s.dimension_order" % pre, impl_order, exp_order, "dimension_order")

    if scope == "c02":
        # Cube / CubeSet.valid_counts_summary_range: (min, max) of the unweighted valid counts summed over the
        # non-array dimensions; None without the measure
        from cr.cube.cube import CubeSet
        mrange = f2(api["cube"]["valid_counts_summary_range"])
        impl = impl_get(lambda: cube.valid_counts_summary_range)
        _cmp(findings, "model", "%s.seam.cube.valid_counts_summary_range" % pre, impl, mrange, "Cube")
        cs = CubeSet([response(case)], [{}], None, 0)
        impl_set = impl_get(lambda: cs.valid_counts_summary_range)
        _cmp(findings, "model", "%s.seam.cubeset.valid_counts_summary_range" % pre, impl_set, mrange, "CubeSet")
        if usrc != "u":
            if impl is not None:
                findings.append({"kind": "spec", "locus": "%s.cube.valid_counts_summary_range.absent" % pre,
                                 "detail": "no valid_count_unweighted measure but reported %s" % _short(impl)})
        elif "mr" not in kinds:
            srange = f2(spec["summary_range"])
            _cmp(findings, "spec", "%s.cube.valid_counts_summary_range" % pre, impl, srange, "Cube (respondent level)")
            _cmp(findings, "spec", "%s.cubeset.valid_counts_summary_range" % pre, impl_set, srange,
                 "CubeSet (respondent level)")
            ctx.count("summary_range.respondent_level_checked")
        else:
            # multiple-response dimension: HEAD (pinned by tests) does not sum the selection axis and shifts the
            # axes of later categorical dimensions; compared with the model only, divergence from the
            # respondent-level reading is counted, not reported
            ok, _ = common.deep_close(impl, f2(spec["summary_range"]))
            ctx.count("summary_range.mr_%s_respondent_reading" % ("agrees_with" if ok else "differs_from"))

    parts = common.call_impl(lambda: len(cube.partitions))
    if parts != api["npartitions"] or parts != spec["npartitions"]:
        return findings + [{"kind": "spec", "locus": "%s.npartitions" % pre,
                            "detail": "%r vs model %r spec %r" % (parts, api["npartitions"], spec["npartitions"])}], None
    for k in range(parts):
        part = cube.partitions[k]
        m = api["parts"][k]
        sp = spec["parts"][k]
        tag = "partition %d" % k
        if nd == 0:
            if scope != "c01":
                continue
            for name in ("means", "unweighted_count", "is_empty", "table_base"):
                impl = impl_get(lambda: getattr(part, name))
                _cmp(findings, "model", "%s.nub.%s" % (pre, name), impl, f2(m[name]), tag)
            if "mean" in sp:
                _cmp(findings, "spec", "%s.nub.means" % pre, impl_get(lambda: part.means), f2(sp["mean"]), tag)
            if usrc == "u":
                _cmp(findings, "spec", "%s.nub.unweighted_count" % pre, impl_get(lambda: part.unweighted_count),
                     f2(sp["ucounts"]), tag)
            v = impl_get(lambda: part.means)
            if isinstance(v, float) and not math.isnan(v):
                key = ("nub", v)
            continue
        what = "slice" if nd >= 2 else "strand"
        if scope == "c01":
            names = C01_SLICE if nd >= 2 else C01_STRAND
            for name in names:
                impl = impl_get(lambda: getattr(part, name))
                _cmp(findings, "model", "%s.seam.%s.%s" % (pre, what, name), impl, f2(m[name]), tag)
                if m[name] is None and m["unweighted_counts"] is None:
                    # the response carries no usable unweighted counts: no output can be assembled
                    ctx.count("%s.unassemblable" % pre)
                    continue
                if name in MEASURE_OF:
                    meas = MEASURE_OF[name]
                    if meas in sp:
                        # C01: exactly the value the response carries for that cell; unavailable -> NaN
                        _cmp(findings, "spec", "%s.%s.%s" % (pre, what, name), impl, f2(sp[meas]), tag)
                        _collect(distinct, impl)
                    elif impl is not None:
                        findings.append({"kind": "spec", "locus": "%s.%s.%s.absent" % (pre, what, name),
                                         "detail": "%s: measure absent from the response but reported %s" % (tag, _short(impl))})
                elif name == "counts":
                    if wsrc in ("w", "u"):
                        carried = sp["valid_count_weighted" if wsrc == "w" else "valid_count_unweighted"]
                        _cmp(findings, "spec", "%s.%s.counts" % (pre, what), impl, f2(carried), tag + " (carried valid count)")
                        resp_level = sp["counts"] if wsrc == "w" else sp["ucounts"]
                        _cmp(findings, "spec", "%s.%s.counts" % (pre, what), impl, f2(resp_level), tag + " (respondent level)")
                elif name == "unweighted_counts":
                    if usrc == "u":
                        _cmp(findings, "spec", "%s.%s.unweighted_counts" % (pre, what), impl,
                             f2(sp["valid_count_unweighted"]), tag + " (carried valid count)")
                        _cmp(findings, "spec", "%s.%s.unweighted_counts" % (pre, what), impl, f2(sp["ucounts"]),
                             tag + " (respondent level)")
                        _collect(distinct, impl)
        else:
            if nd >= 2:
                expect = {"row_unweighted_bases": "urow_bases", "column_unweighted_bases": "ucolumn_bases",
                          "table_unweighted_bases": "utable_bases"}
                wkey = {"row_weighted_bases": "row_bases", "column_weighted_bases": "column_bases",
                        "table_weighted_bases": "table_bases"}
                for name in C02_SLICE:
                    impl = impl_get(lambda: getattr(part, name))
                    _cmp(findings, "model", "%s.seam.slice.%s" % (pre, name), impl, f2(m[name]), tag)
                    if m[name] is None:
                        continue
                    if name in expect and usrc == "u":
                        _cmp(findings, "spec", "%s.slice.%s" % (pre, name), impl, f2(sp[expect[name]]), tag)
                        _collect(distinct, impl)
                    if name in wkey and weighted_is_respondent:
                        skey = wkey[name] if wsrc == "w" else "u" + wkey[name]
                        _cmp(findings, "spec", "%s.slice.%s" % (pre, name), impl, f2(sp[skey]), tag)
                for name in C02_SLICE_DERIVED:
                    impl = impl_get(lambda: getattr(part, name))
                    _cmp(findings, "spec", "%s.slice.%s" % (pre, name), impl, f2(m[name]), tag)
                mask = part.min_base_size_mask
                for name in ("row_mask", "column_mask", "table_mask"):
                    impl = impl_get(lambda: getattr(mask, name))
                    _cmp(findings, "spec", "%s.slice.min_base_size_mask.%s" % (pre, name), impl, m[name],
                         "%s size %s" % (tag, case.get("min_base")))
            else:
                for name in C02_STRAND:
                    impl = impl_get(lambda: getattr(part, name))
                    _cmp(findings, "model", "%s.seam.strand.%s" % (pre, name), impl, f2(m[name]), tag)
                    if m[name] is None:
                        continue
                    # 1-D bases: eligible respondents (for a numeric array: with a value on the item)
                    if name == "unweighted_bases" and usrc == "u":
                        _cmp(findings, "spec", "%s.strand.%s" % (pre, name), impl, f2(sp["utable_bases"]), tag)
                        _collect(distinct, impl)
                    if name == "weighted_bases" and weighted_is_respondent:
                        _cmp(findings, "spec", "%s.strand.%s" % (pre, name), impl,
                             f2(sp["table_bases" if wsrc == "w" else "utable_bases"]), tag)
                for name in C02_STRAND_DERIVED:
                    impl = impl_get(lambda: getattr(part, name))
                    _cmp(findings, "spec", "%s.strand.%s" % (pre, name), impl, f2(m[name]), tag)
    if len(distinct) >= 2:
        key = ("x".join(kinds), case["n_items"], case["vc"], tuple(case["measures"]), len(case["survey"]),
               tuple(sorted(distinct))[:4])
    return findings, key


def _collect(acc, v):
    if isinstance(v, list):
        for x in v:
            _collect(acc, x)
    elif isinstance(v, (int, float)) and not isinstance(v, bool) and not math.isnan(v):
        acc.add(round(float(v), 9))
