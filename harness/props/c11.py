"""C11 — variance, standard deviation, standard error and margin of error of proportions.

For every displayed cell (ordinary, subtotal, difference, intersection) of every partition and
every direction (row / column / table), and for every row of a strand:
  impl (public API of _Slice / _Strand)  vs  Lean Spec (respondent level: weighted variance of
  the +1/-1/0 indicator among the base respondents; NaN rules)            -> kind "spec"
  impl  vs  Lean Model (the library's formula on the primitives computed HERE from the survey) -> kind "model"
The Python primitives are cross-checked against the Lean respondent-level primitives
(`prims_agree`, harness fault otherwise); the MoE constant is compared with cubepart.Z_975.
"""
from fractions import Fraction

import gen
import common
from props import stats_util as su

PROPERTY = "C11"
LEAN_MODULE = "CrCube.Props.C11"
THEOREMS = []  # filled at the bottom
RULE = ("2-D (and some 3-D) cubes over cat/cat_date/mr (+ text/datetime/binned without insertions) and 1-D strands, "
        "dyadic weights incl. 0 or unweighted, 0-40 respondents with uneven missingness, 0-2 subtotal/difference "
        "insertions per categorical dimension (addends 1-3, subtrahends 0-2, stale/missing ids, negative-only, "
        "rarely overlapping), `pairwise_indices` settings (alpha lists, only_larger) in 40% of the cases (the MoE must "
        "stay at 95%), large samples (x1e4..3e6); every displayed cell x 3 directions x 4 statistics; non-trivial = some inserted cell "
        "AND some base cell with a finite variance > 0; distinct = (kinds, insertion shapes, raw weighted counts)")
ASSUMPTIONS = ["addends and subtrahends of one insertion are disjoint for the spec comparison (DESIGN N2); "
               "overlapping ones are compared with the model only",
               "categorical-date multi-term differences: NaN demanded in the inserted row/column itself, "
               "intersections and table direction follow the plain quotient (DESIGN N1)"]
TRUSTED_EXTRA = ["numpy sqrt evaluates the symbolic sqrt terms"]

DIRS = [("row", "row"), ("col", "column"), ("table", "table")]
KINDS2 = ["cat", "cat", "cat", "cat", "cat_date", "cat_date", "cat_date", "mr", "mr", "mr", "text", "binned", "datetime"]


EXTRA_SETS = [["weighted_squared_count"], ["weighted_squared_count"], ["weighted_squared_count"], ["sum"], ["mean"],
              ["weighted_squared_count", "sum"], ["weighted_squared_count", "mean"], ["mean", "sum"]]
PRE_READS = ["pairwise_indices", "pairwise_significance_tests", "columns_scale_mean_pairwise_indices", "counts",
             "column_weighted_bases", "columns_base", "sums", "means"]


def extra_measures(case, vars_, survey):
    """{measure name: flat payload} of the additional measures of the case (same raw layout as the counts).
    weighted_squared_count = sum of squared weights per raw cell (x K for the K-fold replicated survey);
    sum / mean: of a dyadic per-respondent value (mean `{"?": -8}` where the cell is empty)"""
    extras = case.get("extras") or []
    if not extras:
        return None
    k = case.get("scale", 1)
    ws = survey if case["weighted"] else [(Fraction(1), a) for _, a in survey]
    out = {}
    if "weighted_squared_count" in extras:
        out["weighted_squared_count"] = [gen.num(x * k) for x in gen.tabulate(vars_, [(w * w, a) for w, a in ws], True)]
    if "sum" in extras or "mean" in extras:
        sums = gen.tabulate(vars_, [(w * Fraction(i % 7 - 2, 2), a) for i, (w, a) in enumerate(ws)], True)
        cnts = gen.tabulate(vars_, ws, True)
        if "sum" in extras:
            out["sum"] = [gen.num(x * k) for x in sums]
        if "mean" in extras:
            out["mean"] = [float(x / c) if c != 0 else {"?": -8} for x, c in zip(sums, cnts)]
    return out


def gen_case(rng, shape=None, kinds=None, weighted=None, n_resps=(0, 1, 2, 5, 10, 20, 30, 40), n_valid=(1, 4),
             p_ins=0.75, regimes=True, p_scale=0.12):
    """the extension modules (c11_smooth, c11_wscale) call this with a fixed shape / kinds / weighting"""
    shape = shape or rng.choice(["strand", "2d", "2d", "2d", "2d", "3d"])
    if kinds is not None:
        pass
    elif shape == "strand":
        kinds = [rng.choice(["cat", "cat", "cat_date", "cat_date", "mr"])]
    elif shape == "2d":
        kinds = [rng.choice(KINDS2), rng.choice(KINDS2)]
    else:
        kinds = [rng.choice(["cat", "mr", "cat_date"]), rng.choice(KINDS2), rng.choice(KINDS2)]
    vars_ = []
    for i, kd in enumerate(kinds):
        vars_.append(su.gen_dim_var(rng, kd, "v%d" % i, n_valid=rng.randint(*n_valid) if shape != "3d" or i else rng.randint(1, 2),
                                    n_missing=rng.choice([0, 0, 1, 2]), missing_first=rng.random() < 0.4))
    weighted = (rng.random() < 0.6) if weighted is None else weighted
    n_resp = rng.choice(list(n_resps))
    survey = su.gen_survey(rng, vars_, n_resp, weighted)
    # the strand's p(1 - p) cancels in 1 - p when p is within 2^-34 of 1 (float noise ~1e-6 relative): the
    # mixed-scale regime is kept out of strands; the three-term slice formula is stable under it
    regime = su.pick_regime(rng, weighted, p_each=0.2 if shape == "strand" else 0.08,
                            allowed=("tiny", "small") if shape == "strand" else ("tiny", "mixed", "small"))
    if not regimes:
        regime = None
    survey = su.apply_regime(rng, vars_, survey, regime)
    p_overlap = 0.08
    row_ins = col_ins = []
    rv = vars_[-2] if len(vars_) >= 2 else vars_[0]
    cv = vars_[-1] if len(vars_) >= 2 else None
    if rv.kind in ("cat", "cat_date") and rng.random() < p_ins:
        row_ins = su.gen_insertions(rng, rv, rng.randint(1, 2), p_diff=0.6, p_overlap=p_overlap)
    if cv is not None and cv.kind in ("cat", "cat_date") and rng.random() < p_ins:
        col_ins = su.gen_insertions(rng, cv, rng.randint(1, 2), p_diff=0.6, p_overlap=p_overlap)
    # `pairwise_indices` settings of the analysis: they concern the pairwise tests only; the margin of
    # error is at 95% (1.959964 x std-err) whatever they say
    pairwise = None
    if rng.random() < 0.4:
        pairwise = {"alpha": rng.choice([[0.1], [0.01], [0.01, 0.2], [0.2, 0.1], [0.001], [0.5]])}
        if rng.random() < 0.5:
            pairwise["only_larger"] = rng.random() < 0.5
    case = {"vars": [v.to_json() for v in vars_], "survey": gen.survey_to_json(survey), "weighted": weighted,
            "row_ins": row_ins, "col_ins": col_ins, "scale": su.pick_scale(rng, p_scale), "pairwise": pairwise,
            "wregime": regime}
    # measures the back end sends ALONG with the counts when the analysis asks for something else as well (squared
    # weights for the pairwise column tests, a numeric sum / mean of the same table): the statistics of the proportions
    # are functions of the weighted counts alone, whatever else the response carries; `pre_reads`: what the same
    # front-end request reads first (the pairwise results built on the squared weights, the numeric measure)
    extras, pre = [], []
    if rng.random() < (0.4 if weighted else 0.15):
        extras = rng.choice(EXTRA_SETS)
        if rng.random() < 0.5:
            pre = [a for a in PRE_READS if rng.random() < 0.5]
    case["extras"] = extras
    case["pre_reads"] = pre
    return case


def generate(ctx):
    return [gen_case(ctx.rng) for _ in range(ctx.n(200, 9000))]


# ---------------------------------------------------------------------------------------
# primitives


def _wsurvey(case, survey):
    ws = survey if case["weighted"] else [(Fraction(1), a) for _, a in survey]
    return su.scaled_survey(ws, case.get("scale", 1))


def _sides(case, vars_):
    if len(vars_) == 1:
        b, s = su.sides_of(vars_[0], case["row_ins"])
        return b + s, None
    rb, rs = su.sides_of(vars_[-2], case["row_ins"])
    cb, cs = su.sides_of(vars_[-1], case["col_ins"])
    return rb + rs, cb + cs


def _base_side(e):
    return {"add": [e], "sub": [], "inserted": False}


def slice_cells(case, vars_, survey, k):
    """ops cells for partition k: every (R, C) in block order x 3 directions"""
    rows, cols = _sides(case, vars_)
    cx = su.SliceCtx(vars_, _wsurvey(case, survey), k)
    cells = []
    for R in rows:
        for C in cols:
            np_ = cx.W(cx.pos_pred(R, C))
            nn_ = cx.W(cx.neg_pred(R, C))
            on_rows = R["inserted"] and not C["inserted"]
            for dname, _ in DIRS:
                base = cx.W(cx.base_pred(dname, R, C))
                if on_rows:
                    cA = sum((cx.W(cx.pos_pred(_base_side(e), C)) for e in R["add"]), Fraction(0))
                    bA = sum((cx.W(cx.base_pred(dname, _base_side(e), C)) for e in R["add"]), Fraction(0))
                    cS = sum((cx.W(cx.pos_pred(_base_side(e), C)) for e in R["sub"]), Fraction(0))
                    bS = sum((cx.W(cx.base_pred(dname, _base_side(e), C)) for e in R["sub"]), Fraction(0))
                else:
                    cA = sum((cx.W(cx.pos_pred(R, _base_side(e))) for e in C["add"]), Fraction(0))
                    bA = sum((cx.W(cx.base_pred(dname, R, _base_side(e))) for e in C["add"]), Fraction(0))
                    cS = sum((cx.W(cx.pos_pred(R, _base_side(e))) for e in C["sub"]), Fraction(0))
                    bS = sum((cx.W(cx.base_pred(dname, R, _base_side(e))) for e in C["sub"]), Fraction(0))
                cells.append({"dir": dname, "R": R, "C": C, "np": su.fs(np_), "nn": su.fs(nn_), "base": su.fs(base),
                              "cA": su.fs(cA), "bA": su.fs(bA), "cS": su.fs(cS), "bS": su.fs(bS)})
    return cells


def strand_cells(case, vars_, survey):
    v = vars_[0]
    rows, _ = _sides(case, vars_)
    ws = _wsurvey(case, survey)

    def W(pred):
        return sum((w for w, a in ws if pred(a[0])), Fraction(0))
    cells = []
    for S in rows:
        base = W(lambda a: su.side_elig(v, a, S))
        np_ = W(lambda a: su.in_any(v, a, S["add"]))
        nn_ = W(lambda a: su.in_any(v, a, S["sub"]))
        cA = sum((W(lambda a: su.in_elem(v, a, e)) for e in S["add"]), Fraction(0))
        cS = sum((W(lambda a: su.in_elem(v, a, e)) for e in S["sub"]), Fraction(0))
        bA = sum((W(lambda a: su.elig_for(v, a, e)) for e in S["add"]), Fraction(0))
        bS = sum((W(lambda a: su.elig_for(v, a, e)) for e in S["sub"]), Fraction(0))
        cells.append({"S": S, "np": su.fs(np_), "nn": su.fs(nn_), "base": su.fs(base),
                      "cA": su.fs(cA), "bA": su.fs(bA), "cS": su.fs(cS), "bS": su.fs(bS)})
    return cells


def lean_ops(case):
    vars_, survey = su.load_case(case)
    lv = su.lean_vars(vars_)
    ls = gen.survey_lean(vars_, _wsurvey(case, survey))
    ops = [{"op": "z975"}]
    if len(vars_) == 1:
        ops.append({"op": "c11_strand", "vars": lv, "survey": ls, "catDate": vars_[0].kind == "cat_date",
                    "cells": strand_cells(case, vars_, survey)})
        return ops
    for k in range(su.n_partitions(vars_)):
        ops.append({"op": "c11_cells", "vars": lv, "survey": ls, "k": k,
                    "rowsCatDate": vars_[-2].kind == "cat_date", "colsCatDate": vars_[-1].kind == "cat_date",
                    "cells": slice_cells(case, vars_, survey, k)})
    return ops


# ---------------------------------------------------------------------------------------


def _cellkind(R, C=None):
    def one(S):
        if not S["inserted"]:
            return "base"
        return "diff" if S["sub"] else "subtotal"
    if C is None:
        return one(R)
    r, c = one(R), one(C)
    if r == "base" and c == "base":
        return "base"
    if r != "base" and c != "base":
        return "intersection.%s-x-%s" % (r, c)
    return "%s-row" % r if r != "base" else "%s-col" % c


def _overlap(S):
    return bool(set(S["add"]) & set(S["sub"]))


STATS = [("variance", "%s_proportion_variances"), ("std_dev", "%s_std_dev"), ("std_err", "%s_std_err"),
         ("moe", "%s_proportions_moe")]


def evaluate(case, louts, ctx):
    from cr.cube.cube import Cube
    from cr.cube import cubepart
    vars_, survey = su.load_case(case)
    findings = []
    ctx.count("kinds:" + su.kinds_key(vars_))
    z = common.model_to_float(louts[0])
    if z != cubepart.Z_975:
        findings.append({"kind": "spec", "locus": "moe.constant",
                         "detail": "cubepart.Z_975=%r but the property says %r" % (cubepart.Z_975, z)})
    resp = su.scale_response(gen.cube_response(vars_, survey, case["weighted"],
                                               extra_measures=extra_measures(case, vars_, survey)),
                             case.get("scale", 1))
    if case.get("extras"):
        ctx.count("cases_with_extra_measures:" + "+".join(case["extras"]))
    if case.get("scale", 1) > 1:
        ctx.count("large_sample_cases:%s" % ("weighted" if case["weighted"] else "unweighted"))
    tr = su.transforms_of(case["row_ins"], case["col_ins"], pairwise=case.get("pairwise"))
    if case.get("pairwise") is not None:
        ctx.count("cases_with_pairwise_settings")
    if case.get("wregime"):
        ctx.count("weight_regime:%s%s" % (case["wregime"], ".strand" if len(vars_) == 1 else ""))
    # a `smoother` dimension transform (c11_smooth) concerns the smoothed_* measures only: the statistics of the
    # (plain) proportions are what they are without it
    for dkey, sm in sorted((case.get("smoother") or {}).items()):
        if sm is not None:
            tr.setdefault(dkey, {})["smoother"] = sm
            ctx.count("smoother:%s:function=%s" % (dkey, sm.get("function", "absent")))
    cube = Cube(resp, transforms=tr)
    key_parts = []
    nontrivial_ins = nontrivial_base = False

    def check(stat, api, impl, cells_out, idx_of, kind_of, overlap_of, where):
        """impl: flat list of displayed values; cells_out[idx_of(n)] the lean cell"""
        nonlocal nontrivial_ins, nontrivial_base
        for n, iv in enumerate(impl):
            co = cells_out[idx_of(n)]
            if not co["prims_agree"]:
                raise common.HarnessFault("python primitives != lean respondent-level primitives: %s cell %d of %r"
                                          % (where, n, case))
            mv = common.model_to_float(co["model"][stat])
            sv = common.model_to_float(co["spec"][stat])
            ck = kind_of(n)

            def _nc(a, b, _co=co):
                if common.num_close(a, b):
                    return True
                # mixed-scale weights (one row at 2^-34 next to ordinary weights): where a proportion is within ~1e-11 of 0 or 1 the float
                # 1 - p cancels (ulp(1) / (1 - p) ~ 4e-6 relative) - rounding, not a defect; found by the thorough tier (1 case in 11 000)
                if case.get("wregime") != "mixed" or not isinstance(a, float) or not isinstance(b, float) or a != a or b != b:
                    return False
                try:
                    v = common.model_to_float(_co["spec"]["variance"])
                except Exception:  # noqa
                    return False
                if isinstance(v, float) and v == v and abs(v) < 1e-6 and abs(a - b) <= 1e-4 * max(abs(a), abs(b)):
                    ctx.count("tolerated:mixed-regime-cancellation")
                    return True
                return False

            if not overlap_of(n):
                if not _nc(iv, sv):
                    findings.append({"kind": "spec", "locus": "%s.%s.%s" % (where, stat, ck),
                                     "detail": "%s displayed cell %d: impl=%r spec=%r (model=%r)" % (api, n, iv, sv, mv)})
                    return
            else:
                ctx.count("overlapping_insertion_cells")
            if not _nc(iv, mv):
                findings.append({"kind": "model", "locus": "seam.%s.%s.%s" % (where, stat, ck),
                                 "detail": "%s displayed cell %d: impl=%r model=%r" % (api, n, iv, mv)})
                return
            if stat == "variance" and isinstance(iv, float) and iv == iv and iv > 1e-12:
                if ck == "base":
                    nontrivial_base = True
                else:
                    nontrivial_ins = True
            if isinstance(iv, float) and iv == iv and iv < 0:
                findings.append({"kind": "spec", "locus": "%s.%s.negative" % (where, stat),
                                 "detail": "%s displayed cell %d is negative: %r" % (api, n, iv)})

    if len(vars_) == 1:
        st = cube.partitions[0]
        rows, _ = _sides(case, vars_)
        for a in case.get("pre_reads") or []:
            common.call_impl(lambda: getattr(st, a))            # may legitimately raise / not exist on a strand
        ro = common.call_impl(lambda: st.row_order().tolist())
        if isinstance(ro, dict) or len(ro) != len(rows):
            findings.append({"kind": "model", "locus": "strand.shape", "detail": "row order %r vs %d sides" % (ro, len(rows))})
            return findings, None
        outs = louts[1]
        nb = len(rows)
        for stat, api in (("std_dev", "table_proportion_stddevs"), ("std_err", "table_proportion_stderrs"),
                          ("moe", "table_proportion_moes"), ("variance", None)):
            if api is None:
                impl = common.call_impl(lambda: (st.table_proportion_stddevs ** 2))
                # the strand has no public variance; skip (covered through std_dev)
                continue
            impl = common.call_impl(lambda: getattr(st, api))
            if isinstance(impl, dict):
                findings.append({"kind": "spec", "locus": "strand.%s.raises" % stat, "detail": "%s raises %r" % (api, impl)})
                continue
            check(stat, api, impl, outs, lambda n: ro[n] % nb if ro[n] >= 0 else nb + ro[n],
                  lambda n: _cellkind(rows[ro[n]]), lambda n: _overlap(rows[ro[n]]), "strand")
        # non-triviality for strands from std_dev
        sd = common.call_impl(lambda: st.table_proportion_stddevs)
        if isinstance(sd, list):
            for n, x in enumerate(sd):
                if isinstance(x, float) and x == x and x > 1e-9:
                    if rows[ro[n]]["inserted"]:
                        nontrivial_ins = True
                    else:
                        nontrivial_base = True
        key_parts.append(tuple(gen.frac_str(x) for x in gen.tabulate(vars_, survey, True)))
    else:
        nparts = su.n_partitions(vars_)
        parts = common.call_impl(lambda: len(cube.partitions))
        if parts != nparts:
            if nparts == 0:
                return findings, None
            findings.append({"kind": "model", "locus": "npartitions", "detail": "%r != %r" % (parts, nparts)})
            return findings, None
        rows, cols = _sides(case, vars_)
        nr, nc = len(rows), len(cols)
        for k in range(nparts):
            outs = louts[1 + k]
            sl = cube.partitions[k]
            for a in case.get("pre_reads") or []:
                common.call_impl(lambda: getattr(sl, a))        # may legitimately raise; only its side effects matter
            ro = common.call_impl(lambda: sl.row_order().tolist())
            co = common.call_impl(lambda: sl.column_order().tolist())
            if isinstance(ro, dict) or isinstance(co, dict) or len(ro) != nr or len(co) != nc:
                findings.append({"kind": "model", "locus": "slice.shape",
                                 "detail": "orders %r %r vs sides %d %d" % (ro, co, nr, nc)})
                continue
            for di, (dname, dapi) in enumerate(DIRS):
                for stat, api_t in STATS:
                    api = api_t % dapi
                    impl = common.call_impl(lambda: getattr(sl, api))
                    if isinstance(impl, dict):
                        findings.append({"kind": "spec", "locus": "slice.%s.%s.raises" % (dname, stat),
                                         "detail": "%s raises %r" % (api, impl)})
                        continue
                    flat = [x for r in impl for x in r]

                    def idx_of(n, di=di):
                        ii, jj = divmod(n, nc)
                        ri = ro[ii] if ro[ii] >= 0 else nr + ro[ii]
                        cj = co[jj] if co[jj] >= 0 else nc + co[jj]
                        return (ri * nc + cj) * 3 + di

                    def sides_of(n):
                        ii, jj = divmod(n, nc)
                        return rows[ro[ii]], cols[co[jj]]
                    check(stat, api, flat, outs, idx_of, lambda n: _cellkind(*sides_of(n)),
                          lambda n: _overlap(sides_of(n)[0]) or _overlap(sides_of(n)[1]), "slice.%s" % dname)
        key_parts.append(tuple(gen.frac_str(x) for x in gen.tabulate(vars_, survey, True)))
    key = None
    if nontrivial_base and (nontrivial_ins or not (case["row_ins"] or case["col_ins"])):
        shapes = tuple((len(d.get("args", [])), len(d.get("kwargs", {}).get("negative", [])))
                       for d in case["row_ins"] + case["col_ins"])
        key = (su.kinds_key(vars_), shapes, key_parts[0] if key_parts else None)
        if nontrivial_ins:
            ctx.count("cases_with_nontrivial_inserted_variance")
    return findings, key


def describe(case):
    vars_, survey = su.load_case(case)
    return {"kinds": [v.kind for v in vars_], "missing_flags": [v.cat_missing for v in vars_],
            "n_respondents": len(survey), "weighted": case["weighted"],
            "row_ins": case["row_ins"], "col_ins": case["col_ins"], "pairwise": case.get("pairwise"),
            "extras": case.get("extras"), "pre_reads": case.get("pre_reads"), "smoother": case.get("smoother"),
            "wfactor": case.get("wfactor"), "scale": case.get("scale", 1), "first_respondents": case["survey"][:3]}


def shrink_candidates(case):
    for c in su.shrink_survey(case):
        yield c
    for key in ("row_ins", "col_ins"):
        ins = case[key]
        for i in range(len(ins)):
            yield dict(case, **{key: ins[:i] + ins[i + 1:]})
    if case["weighted"]:
        yield dict(case, survey=[["1", a] for _, a in case["survey"]])
    if case.get("scale", 1) > 1:
        yield dict(case, scale=1)
    if case.get("pairwise") is not None:
        yield dict(case, pairwise=None)
    if case.get("pre_reads"):
        yield dict(case, pre_reads=[])
    ex = case.get("extras") or []
    for i in range(len(ex)):
        yield dict(case, extras=ex[:i] + ex[i + 1:])
    sm = case.get("smoother") or {}
    for dkey in sorted(sm):
        if sm[dkey] is not None:
            yield dict(case, smoother={k: v for k, v in sm.items() if k != dkey})


THEOREMS = [
    "CrCube.C11.variance_eq_spec",
    "CrCube.C11.variance_is_indicator_variance",
    "CrCube.C11.variance_nan_iff",
    "CrCube.C11.variance_ordinary",
    "CrCube.C11.stddev_def",
    "CrCube.C11.stderr_def",
    "CrCube.C11.moe_def",
    "CrCube.C11.z975_value",
    "CrCube.C11.stats_eq_spec",
    "CrCube.C11.radicands_nonneg",
    "CrCube.C11.nonneg",
    "CrCube.C11.stddev_sq",
    "CrCube.C11.strand_variance_eq_spec",
    "CrCube.C11.strand_variance_ordinary",
    "CrCube.C11.strand_stats_def",
]
