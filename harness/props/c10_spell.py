"""C10 extension - transposition under SPELLINGS: how labels and ids are written must not matter to one axis only.

What c10.py / c10_pipeline.py do not generate, and this module does:

* LABEL ALPHABETS.  Every generator of the framework names categories `c13`, items `v0 item 2`, subtotals `S0`: all labels
  of a dimension share one prefix and one case, so any change to HOW labels are compared (case folding, stripping,
  locale / natural / length order, element labels vs subtotal labels) is invisible.  Here the labels of categories, text
  values, array items, renamed elements (`elements: {id: {name: ...}}`) and subtotals are drawn, distinct within a
  dimension, from an alphabet whose plain (code-point) order differs from its case-folded, stripped, numeric-aware and
  length order: mixed-case initials (`iOS app` / `Instagram` / `eBay` / `Zoom`), pairs differing by case only (`apple` /
  `Apple` / `APPLE`), leading / trailing blanks, digits (`10` / `9` / `2nd`), punctuation and non-ASCII initials.  Label
  orders - ascending and descending, with fixed top / bottom lists, hidden and pruned elements, subtotals - are put on the
  rows, the columns or both.
* ID SPELLINGS.  Transforms arrive as JSON: an id may be an int or the string of that int; an array item may be named by
  alias, subvariable id, element id or the string of it; a datetime element by its value, its integer id or the string
  of it.  The id-bearing fields of the order transforms - `element_id` of a sort by an opposing element, `insertion_id`
  of a sort by an opposing insertion, `element_ids` of an explicit order, `fixed.top` / `fixed.bottom` of every sort -
  are written in each of these spellings.  Whatever the library makes of a spelling (use it, ignore it, fall back to
  payload order), it must make the same of it on the exchanged axis.

Oracles: (1) c10.py's library-level pair oracle (every paired / direction-free public property of A x B against B x A with
the transforms mirrored) - `spec` findings; (2) for designs the pipeline model covers, the A x B case is also transposed in
Lean (`pipe_slice_t`, c10_pipeline) and compared with the library on B x A, so the label orders of these alphabets and the
id spellings are judged by the model the theorems `C10.row_order_transposes` / `col_order_transposes` speak about.
"""
import copy
from fractions import Fraction
import common
import gen
from props import _slice_common as sc
from props import c05
from props import c10
from props import c10_pipeline as cpt

PROPERTY = "C10"
LEAN_MODULE = ["CrCube.Props.C10_Pipeline"]
THEOREMS = [
    "CrCube.C10.row_order_transposes",
    "CrCube.C10.col_order_transposes",
]
RULE = ("spellings: 2-D designs over cat / cat_date / text / datetime / mr with >= 2 elements per dimension whose element, "
        "renamed-element and subtotal labels are drawn (distinct per dimension) from a mixed-case / blank / digit / "
        "punctuation / non-ASCII alphabet, and whose order transforms (label, opposing-element, opposing-insertion, explicit; "
        "fixed lists; both directions) spell ids as int, str(int), alias, subvariable id or datetime value; A x B vs B x A at "
        "library level and via the Lean transposition; non-trivial = a label order whose plain order differs from the "
        "case-folded one, or an id spelled otherwise than the payload does; distinct = (kinds, transforms, counts)")
ASSUMPTIONS = ["N8: mirrored transforms are those the library implements on both axes",
               "labels are distinct within a dimension (ties are unconstrained, N6)"]
TRUSTED_EXTRA = []

KINDS = ["cat", "cat", "cat", "mr", "cat_date", "datetime", "text"]

# plain code-point order != case-folded order != stripped order != numeric-aware order != accent-folded order
CLUSTERS = {
    "case": ["Instagram", "iOS app", "Zoom", "eBay", "Android app", "apple", "Apple", "APPLE", "zebra", "Zebra", "banana",
             "Banana", "a", "A", "b", "B", "ab", "Ab", "aB", "AB", "z", "Z", "i", "I", "macOS", "MacBook", "none of these",
             "None of these", "Other", "other", "Yes", "no", "NO", "yes"],
    "blank": [" leading blank", "trailing blank ", "  two blanks", "leading blank", "trailing blank", "two blanks", " Zoom",
              "a ", " a", "A  b", "A b"],
    "digit": ["10", "9", "2nd", "100 %", "1st", "007", "7", "1,000", "99.5", "-1", "+1", "1e3"],
    "punct": ["_underscore", "~tilde", "[bracket]", "(paren)", "#hash", "under_score", "Under score", "under-score", "'quoted'"],
    "accent": ["Émile", "émile", "Emile", "emile", "Öl", "öl", "Ol", "ñandú", "nandu", "Zürich", "Zurich", "Zz"],
}
WORDS = sorted({w for ws in CLUSTERS.values() for w in ws})

MEASURES = [m for m in c05.MEASURE_KW if m != "col_index"]


class _Names:
    """distinct labels for ONE dimension (elements, renamed elements, subtotals); most dimensions get a focus cluster -
    several labels that differ by case / blanks / digits / punctuation / accents only - the rest come from the whole pool"""

    def __init__(self, rng):
        self.rng = rng
        self.focus = rng.choice(sorted(CLUSTERS)) if rng.random() < 0.7 else None
        self.used = set()

    def pick(self):
        rng = self.rng
        pool = CLUSTERS[self.focus] if (self.focus and rng.random() < 0.6) else WORDS
        free = [w for w in pool if w not in self.used] or [w for w in WORDS if w not in self.used]
        w = rng.choice(free)
        self.used.add(w)
        return w


def relabel(names, v):
    """new names for all categories / items of a variable (data untouched)"""
    d = v.to_json()
    for x in (d["items"] if v.is_array else d["cats"]):
        x["name"] = names.pick()
    return d


def spellings(v, pos):
    """every way the transforms may name the pos-th element (payload position, valid or not) of a variable's dimension"""
    if v.is_array:
        it = v.items[pos]
        return [it["alias"], it["subvar_id"], it["id"], str(it["id"])]
    c = v.cats[pos]
    if v.kind == "datetime":
        return ["20%02d-01-01T00:00:00" % (pos + 1), c["id"], str(c["id"])]
    return [c["id"], str(c["id"])]


def _valid_pos(v):
    return [k for k, it in enumerate(v.items) if not it.get("missing")] if v.is_array else v.valid_cat_pos


def spell(rng, v, pos, p_alt):
    sp = spellings(v, pos)
    if rng.random() < p_alt and len(sp) > 1:
        return rng.choice(sp[1:])
    return sp[0]


def gen_dim(rng, v, names, need_ins):
    """transforms of one dimension but its order"""
    d = {}
    keys = sc.element_keys(v)
    ins = sc.gen_insertions(rng, v, max_n=3, allow_diff=True, allow_hide=False)
    for _ in range(20):
        if ins or not need_ins:
            break
        ins = sc.gen_insertions(rng, v, max_n=3, allow_diff=True, allow_hide=False)
    if ins and (need_ins or rng.random() < 0.75):
        for i in ins:
            i["name"] = names.pick()
        d["insertions"] = ins
    if rng.random() < 0.3:
        d["prune"] = True
    el = {}
    for kx in keys:
        r = rng.random()
        if r < 0.12:
            el[str(kx)] = {"hide": True}
        elif r < 0.30:
            el[str(kx)] = {"name": names.pick()}
    if el:
        d["elements"] = el
    return d


def gen_order(rng, v, opp, opp_ins, kind, p_alt):
    vp, op = _valid_pos(v), _valid_pos(opp)
    if kind == "label":
        o = {"type": "label"}
    elif kind == "opposing_element":
        # now and then a missing / absent element of the opposing dimension
        pos = rng.choice(op) if (op and rng.random() < 0.93) else rng.randrange(len(opp.items if opp.is_array else opp.cats))
        o = {"type": "opposing_element", "element_id": spell(rng, opp, pos, p_alt), "measure": rng.choice(MEASURES)}
        if rng.random() < 0.04:
            o["element_id"] = rng.choice([998, "998", "no_such"])
    elif kind == "opposing_insertion":
        iids = [i.get("id") for i in opp_ins] or [77]
        iid = rng.choice(iids + [77] if rng.random() < 0.1 else iids)
        o = {"type": "opposing_insertion", "insertion_id": str(iid) if rng.random() < p_alt else iid,
             "measure": rng.choice(MEASURES)}
    else:
        l = list(vp)
        rng.shuffle(l)
        l = l[: rng.randint(0, len(l))]
        return {"type": "explicit", "element_ids": [spell(rng, v, p, p_alt) for p in l]}
    if rng.random() < 0.6:
        o["direction"] = rng.choice(["ascending", "descending"])
    if rng.random() < 0.35 and vp:
        fx = {}
        for side in ("top", "bottom"):
            if rng.random() < 0.6:
                fx[side] = [spell(rng, v, rng.choice(vp), p_alt) for _ in range(rng.randint(1, 2))]
        if fx:
            o["fixed"] = fx
    return o


def gen_case(rng):
    kinds = [rng.choice(KINDS), rng.choice(KINDS)]
    vars_ = [gen.gen_var(rng, k, "v%d" % i, n=rng.randint(2, 5), missing_items=True) for i, k in enumerate(kinds)]
    weighted = rng.random() < 0.6
    survey = gen.gen_survey(rng, vars_, n_resp=rng.randint(6, 40), weighted=weighted, tiny=False)
    case = {"vars": [], "survey": gen.survey_to_json(survey), "weighted": weighted,
            "min_base": rng.choice([0, 0, 2, 5])}
    names = [_Names(rng), _Names(rng)]
    case["vars"] = [relabel(nm, v) for nm, v in zip(names, vars_)]
    vars_, _ = sc.load(case)
    A, B = vars_
    # how often an id is spelled otherwise than in the payload: never / sometimes / always
    p_alt = rng.choice([0.0, 0.5, 0.5, 1.0])
    insertable = [not v.is_array and v.kind in ("cat", "cat_date") and bool(sc.valid_ids(v)) for v in vars_]
    can_ins = not (A.is_array or B.is_array)
    kinds_o = []
    for i in (0, 1):
        r = rng.random()
        kind = ("label" if r < 0.34 else "opposing_element" if r < 0.62 else "explicit" if r < 0.70 else
                "opposing_insertion" if r < 0.90 else None)
        if kind == "opposing_insertion" and not (can_ins and insertable[1 - i]):
            kind = "opposing_element"
        kinds_o.append(kind)
    rd = gen_dim(rng, A, names[0], kinds_o[1] == "opposing_insertion")
    cd = gen_dim(rng, B, names[1], kinds_o[0] == "opposing_insertion")
    for d, v, opp, od, kind in ((rd, A, B, cd, kinds_o[0]), (cd, B, A, rd, kinds_o[1])):
        if kind == "opposing_insertion" and not od.get("insertions"):
            kind = "opposing_element"
        if kind:
            d["order"] = gen_order(rng, v, opp, od.get("insertions", []), kind, p_alt)
    # F9 (known): no population sort keys on CAT_DATE x CAT_DATE
    if A.kind == "cat_date" and B.kind == "cat_date":
        for d in (rd, cd):
            o = d.get("order") or {}
            if o.get("measure") in ("population", "population_moe"):
                o["measure"] = "count_weighted"
    case["transforms"] = {"rows_dimension": rd, "columns_dimension": cd}
    if rng.random() < 0.3:
        tot = 1
        for x in gen.raw_shape(vars_):
            tot *= x
        case["measures"] = {
            name: [gen.frac_str(Fraction(rng.randint(0, 60), rng.choice([1, 2, 4]))) if rng.random() < 0.9 else None
                   for _ in range(tot)]
            for name in rng.sample(["mean", "sum", "stddev"], rng.randint(1, 2))}
    case["family"] = "two"
    case["population"] = rng.choice([0, 1000])
    return case


def generate(ctx):
    return [gen_case(ctx.rng) for _ in range(ctx.n(130, 2000))]


def _lean_ok(case):
    """designs and spellings the pipeline model is tied to (c05_pipeline's adapter)"""
    vars_, _ = sc.load(case)
    # the driver's `ins_id` is an integer: a sort by an insertion whose id is spelled as a string is judged by the
    # library-level oracle only
    if not cpt._ok_design(vars_):
        return False
    tr = case.get("transforms") or {}
    for name, v, opp in (("rows_dimension", vars_[0], vars_[1]), ("columns_dimension", vars_[1], vars_[0])):
        o = (tr.get(name) or {}).get("order") or {}
        if o.get("type") == "opposing_insertion" and not isinstance(o.get("insertion_id"), int):
            return False
        # the pipeline model's adapter is tied to the shimmed spellings of array / datetime elements (alias, value); the
        # other spellings of those (subvariable id, element id, str of it) are judged by the library-level oracle only
        own = list(o.get("element_ids") or []) + [x for side in (o.get("fixed") or {}).values() for x in side]
        if not all(_model_spelled(v, x) for x in own):
            return False
        if o.get("type") == "opposing_element" and not _model_spelled(opp, o.get("element_id")):
            return False
    return True


def _model_spelled(v, x):
    if v.is_array or v.kind == "datetime":
        return _payload_spelled(v, x) or x == 998
    return isinstance(x, (int, str)) and not isinstance(x, bool)


def lean_ops(case):
    if not _lean_ok(case):
        return []
    return cpt.lean_ops(case)


def _payload_spelled(v, x):
    return any(x == spellings(v, p)[0] and type(x) is type(spellings(v, p)[0])
               for p in range(len(v.items if v.is_array else v.cats)))


def _stats(case, ctx):
    """distribution counters; returns True when the case exercises a spelling (is non-trivial for this module)"""
    vars_, _ = sc.load(case)
    tr = case["transforms"]
    hit = False
    for name, v, opp in (("rows_dimension", vars_[0], vars_[1]), ("columns_dimension", vars_[1], vars_[0])):
        d = tr.get(name) or {}
        o = d.get("order") or {}
        t = o.get("type")
        if not t:
            continue
        ctx.count("spell.order:%s" % t)
        if t == "label":
            from props import c05_pipeline as cp
            role = "mr" if v.kind == "mr" else "cat"
            labs = cp._labels(v, role, d) + [i.get("name", "") for i in d.get("insertions", [])]
            plain = sorted(labs)
            for nm, fold in (("case", str.lower), ("blank", str.strip),
                             ("accent", lambda w: w.encode("ascii", "ignore").decode()),
                             ("digit", lambda w: w.zfill(6) if w[:1].isdigit() else w)):
                if [fold(w) for w in plain] != sorted(fold(w) for w in labs):
                    ctx.count("spell.label-order.%s-folding-would-matter" % nm)
                    hit = True
        if t == "opposing_element":
            x = o.get("element_id")
            if not _payload_spelled(opp, x):
                ctx.count("spell.opposing-element.%s-id-on-%s" % (type(x).__name__, opp.kind))
                hit = True
        if t == "opposing_insertion" and isinstance(o.get("insertion_id"), str):
            ctx.count("spell.opposing-insertion.str-id")
            hit = True
        if t == "explicit" and any(not _payload_spelled(v, x) for x in o.get("element_ids", [])):
            ctx.count("spell.explicit.respelled-on-%s" % v.kind)
            hit = True
        fx = o.get("fixed") or {}
        if any(not _payload_spelled(v, x) for side in fx.values() for x in side):
            ctx.count("spell.fixed.respelled-on-%s" % v.kind)
            hit = True
    return hit


def evaluate(case, louts, ctx):
    findings, key = c10.evaluate(case, [], ctx)
    for f in findings:
        f["detail"] = "[spellings] " + f["detail"]
    hit = _stats(case, ctx)
    if louts:
        ctx.count("spell.judged-by-lean-transposition")
        f2, _k = cpt.evaluate(case, louts, ctx)
        seen = {(f["kind"], f["locus"]) for f in findings}
        for f in f2:
            if (f["kind"], f["locus"]) not in seen:
                seen.add((f["kind"], f["locus"]))
                findings.append(f)
    return findings, (("S",) + tuple(key) if (key and hit) else None)


def describe(case):
    d = sc.describe(case)
    vars_, _ = sc.load(case)
    d["labels"] = [[x["name"] for x in (v.items if v.is_array else v.cats)] for v in vars_]
    d["transforms"] = case.get("transforms")
    return d


shrink_candidates = sc.shrink_candidates
