"""C05 (metadata) — labels, codes, aliases, fills, numeric values under display transforms.

kind "model": every dimension-level metadata list (`element_labels / aliases / ids`, element fills, `hidden_idxs`,
`numeric_values`, `subtotal_labels / aliases`, subtotal fills, `insertion_ids`, `name`, `description`, `alias`, type) and
every assembled public output (`row/column_labels`, `_codes`, `_aliases`, `rows_dimension_fills`,
`_rows/_columns_dimension_numeric_values`, `rows/columns_dimension_name/description/alias/type`, `name`, `table_name`)
of the real partitions = the Lean model `CrCube.Meta` (op `meta_dim`).
kind "spec": the C05 statement itself, as a relation between two runs of the library: under t every label / code / alias
/ fill / numeric-value output = the output under strip(t) re-indexed by the reported orders, its length = the reported
extent, and dimension names / descriptions / aliases / table names do not change; plus the label / fill cascade of
`CrCube.MetaSpec` (rename if a `name` key is given under any spelling, else the payload name; falsy fill = default).
"""
import common
from props import _meta_common as mc
from props import _slice_common as sc

PROPERTY = "C05"
LEAN_MODULE = "CrCube.Props.C05_Meta"
THEOREMS = [
    "CrCube.C05.label_cascade",
    "CrCube.C05.valueRepr_cases",
    "CrCube.C05.label_eq_spec",
    "CrCube.C05.fill_cascade",
    "CrCube.C05.hidden_cascade",
    "CrCube.C05.cascade_non_dict",
    "CrCube.C05.numeric_cascade",
    "CrCube.C05.subtotal_meta_cascade",
    "CrCube.C05.assemble_eq_reindex",
    "CrCube.C05.assemble_extent",
    "CrCube.C05.assemble_raises_iff",
    "CrCube.C05.fills_eq_assemble",
    "CrCube.C05.fills_differ_outside_valid",
    "CrCube.C05.numeric_eq_reindex",
    "CrCube.C05.assemble_reindexed",
    "CrCube.C05.meta_ignores_order_prune",
    "CrCube.C05.labels_reindexed",
    "CrCube.C05.aliases_reindexed",
    "CrCube.C05.codes_reindexed",
    "CrCube.C05.fills_reindexed",
    "CrCube.C05.name_fill_ignore_hide",
    "CrCube.C05.rebuildWith_stripHide",
    "CrCube.C05.entry_ignores_hide",
]
RULE = ("random 1-D / 2-D / 3-D designs over cat / cat_date / logical / text / binned / mr (with derived items) / ca x payload "
        "edits (blank, null, missing element names, dimension names, descriptions, selected_categories) x transforms with "
        "renames (str, '', None, 0, 5, True, key missing), fills (colour, '', None), hide (True, False, None, '', 1, 'true') "
        "keyed by int ids, str ids, aliases, sub-variable ids, positions, stale ids, the same element under two spellings, "
        "elements.key = alias / subvar_id; subtotals (transform- and view-level, with / without name, alias, fill, id, hidden, "
        "non-subtotal, non-dict), MR hidden-insertion copies; dimension name / description transforms; all order types "
        "(c05.gen_order), prune; non-trivial = some rename / fill / hide given and the order under t differs from payload "
        "order or an insertion is present; distinct = (kinds, transforms)")
ASSUMPTIONS = ["strip(t) removes order, prune and the `hide` key of every element entry (entries stay, possibly empty); "
               "insertions (with their own hide flag), renames, fills, dimension name / description stay",
               "datetime dimensions are not generated (strftime label formatting is a parameter of the model)",
               "the display order is an input of the metadata model (it is the subject of C07 / C08 / C05_Pipeline)"]


def generate(ctx):
    return [mc.gen_case(ctx.rng) for _ in range(ctx.n(110, 2500))]


lean_ops = mc.lean_ops


def evaluate(case, louts, ctx):
    findings = []
    vars_, _ = sc.load(case)
    kinds = sc.kinds_of(vars_)
    ctx.count("meta.kinds:" + "x".join(kinds))
    tr = case["transforms"]
    cube_t = mc.model_check(case, louts, findings, ctx)
    cube_0 = mc.make_cube(case, mc.strip(tr))
    pd, table = mc.part_dims(case)
    nontrivial = False
    for k, (p_t, p_0) in enumerate(zip(cube_t.partitions, cube_0.partitions)):
        ax_t, sc_t = mc.observe_part(p_t)
        ax_0, sc_0 = mc.observe_part(p_0)
        shape = sc_t["shape"]
        for j, (a_t, a_0) in enumerate(zip(ax_t, ax_0)):
            nm = "row" if j == 0 else "column"
            o_t, o_0 = a_t["order"], a_0["order"]
            if not isinstance(o_t, list) or not isinstance(o_0, list) or not set(o_t) <= set(o_0):
                continue    # order-level defects are the main C05 module's
            if isinstance(shape, list) and j < len(shape) and shape[j] != len(o_t):
                findings.append({"kind": "spec", "locus": "meta.%s.extent" % nm, "detail": "shape %r order %r" % (shape, o_t)})
            for f in ("labels", "codes", "aliases", "fills", "numeric"):
                if f not in a_t:
                    continue
                v_t, v_0 = a_t[f], a_0[f]
                if isinstance(v_0, dict):
                    if v_t != v_0:
                        findings.append({"kind": "spec", "locus": "meta.%s_%s.raises-differs" % (nm, f),
                                         "detail": "k=%d t: %s strip(t): %s" % (k, mc.short(v_t), mc.short(v_0))})
                    continue
                if isinstance(v_t, dict):
                    findings.append({"kind": "spec", "locus": "meta.%s_%s.raises-under-transforms" % (nm, f),
                                     "detail": "k=%d t: %s strip(t): %s" % (k, mc.short(v_t), mc.short(v_0))})
                    continue
                if len(v_0) != len(o_0) or len(v_t) != len(o_t):
                    findings.append({"kind": "spec", "locus": "meta.%s_%s.extent" % (nm, f),
                                     "detail": "k=%d len %d / %d vs orders %r / %r" % (k, len(v_t), len(v_0), o_t, o_0)})
                    continue
                exp = [v_0[o_0.index(i)] for i in o_t]
                if not mc.close(v_t, exp):
                    findings.append({"kind": "spec", "locus": "meta.%s_%s.reindexed" % (nm, f),
                                     "detail": "k=%d order %r vs %r: t=%s reindexed strip(t)=%s" % (
                                         k, o_t, o_0, mc.short(v_t), mc.short(exp))})
            for f in ("dim_name", "dim_description", "dim_alias", "dim_type"):
                if f in a_t and a_t[f] != a_0[f]:
                    findings.append({"kind": "spec", "locus": "meta.%s.%s.changes" % (nm, f),
                                     "detail": "k=%d t=%r strip(t)=%r" % (k, a_t[f], a_0[f])})
            if o_t != sorted(i for i in o_0 if i >= 0) + sorted(i for i in o_0 if i < 0):
                nontrivial = True
        for f in sc_t:
            if f != "shape" and sc_t[f] != sc_0[f]:
                findings.append({"kind": "spec", "locus": "meta.%s.changes" % f,
                                 "detail": "k=%d t=%r strip(t)=%r" % (k, sc_t[f], sc_0[f])})
        # the cascades of MetaSpec on the dimension lists of this partition
        for j, (key, raw, v, axis) in enumerate(pd):
            s = mc.spec_dim(case, key, raw, v, axis, louts[j])
            if s is None:
                ctx.count("meta.spec.silent")
                continue
            od = mc.observe_dim(p_t._dimensions[j])
            if isinstance(od["labels"], list) and len(od["labels"]) == len(s["labels"]):
                for i, (got, exp) in enumerate(zip(od["labels"], s["labels"])):
                    if exp is not None and got != exp:
                        findings.append({"kind": "spec", "locus": "meta.label.cascade",
                                         "detail": "k=%d %s element %d: label %r, statement %r" % (k, key, i, got, exp)})
                        break
            if isinstance(od["fills"], list) and len(od["fills"]) == len(s["fills"]):
                for i, (got, exp) in enumerate(zip(od["fills"], s["fills"])):
                    if exp != ("?",) and got != exp:
                        findings.append({"kind": "spec", "locus": "meta.fill.cascade",
                                         "detail": "k=%d %s element %d: fill %r, statement %r" % (k, key, i, got, exp)})
                        break
    key = None
    given = any(x for td in tr.values() for _, x in (td.get("elements") or []))
    if given and nontrivial:
        key = ("x".join(kinds), repr(tr))
    return findings, key


describe = mc.describe
shrink_candidates = mc.shrink_candidates
