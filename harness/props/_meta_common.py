"""Shared by c05_meta / c09_meta / c19_meta: element / subtotal METADATA (labels, aliases, codes, fills, hidden flags,
numeric values, dimension name / description / alias, table_name) of real `_Slice` / `_Strand` partitions against the
Lean model `CrCube.Meta` (driver op `meta_dim`) and the statements of `CrCube.MetaSpec`.

A case is a `_slice_common` case (vars, survey, weighted) plus
  patches     edits of the rendered dimension dicts (blank / null / missing names, descriptions, selected_categories)
  transforms  {"rows_dimension": TD, "columns_dimension": TD}; TD is the real transforms dict EXCEPT that `elements` is a
              list of [key, dict] pairs (keys may be ints) and `elements_key` carries the optional "key" marker
  hints       per partition the display orders the library reported when the case was generated: the Lean driver assembles
              the outputs for exactly these orders (`Meta.assemble` / `fillsAt` / `numericAt`); when the tree under test
              reports another order the comparison falls back to indexing the model's base lists (python `l[i]`).
"""
import copy

import common
import gen
from props import _slice_common as sc

KINDS = ["cat", "cat", "cat", "cat_date", "mr", "mr", "text", "binned", "logical"]

NAME_VALUES = ["Renamed", "Other name", "", None, 0, 5, True, "0"]
FILL_VALUES = ["#0a1b2c", "#ffffff", "", None]
HIDE_VALUES = [True, True, True, False, None, "", 1, "true"]


# ---------------------------------------------------------------------------------------
# design


def raw_dim_indexes(vars_):
    """raw index (into result.dimensions) and owning variable of every APPARENT dimension, in order"""
    out = []
    k = 0
    for v in vars_:
        if v.kind == "mr":
            out.append((k, v, "items"))
            k += 2
        elif v.kind == "ca":
            if v.ca_transposed:
                out.append((k, v, "cats"))
                out.append((k + 1, v, "items"))
            else:
                out.append((k, v, "items"))
                out.append((k + 1, v, "cats"))
            k += 2
        else:
            out.append((k, v, "cats"))
            k += 1
    return out


def response(case):
    vars_, survey = sc.load(case)
    resp = gen.cube_response(vars_, survey, case["weighted"])
    dims = resp["result"]["dimensions"]
    for p in case.get("patches", []):
        d = dims[p["dim"]]
        if p["where"] == "refs":
            tgt = d["references"]
        else:
            els = d["type"]["categories"] if d["type"]["class"] == "categorical" else d["type"]["elements"]
            e = els[p["elem"]]
            tgt = e["value"]["references"] if p["where"] == "item" else e
        if p.get("delete"):
            tgt.pop(p["key"], None)
        else:
            tgt[p["key"]] = copy.deepcopy(p["value"])
    return resp


def real_dim_transforms(td):
    t = {}
    for k, v in td.items():
        if k == "elements":
            el = {}
            for key, x in v:
                el[key] = copy.deepcopy(x)
            if td.get("elements_key"):
                el["key"] = td["elements_key"]
            t["elements"] = el
        elif k == "elements_key":
            continue
        else:
            t[k] = copy.deepcopy(v)
    return t


def real_transforms(tr):
    return {k: real_dim_transforms(v) for k, v in tr.items()}


def make_cube(case, tr):
    from cr.cube.cube import Cube
    return Cube(response(case), transforms=real_transforms(tr))


def lean_xf(td):
    x = {}
    if "elements" in td:
        x["elements"] = [[k, v] for k, v in td["elements"]]
        if td.get("elements_key"):
            x["mode"] = td["elements_key"]
    for k in ("insertions", "name", "description"):
        if k in td:
            x[k] = td[k]
    x["other"] = {k: v for k, v in td.items() if k in ("order", "prune")}
    return x


def part_dims(case):
    """[(transforms key, raw dim index, var, axis)] of the partition's dimensions + the table dimension (or None)"""
    vars_, _ = sc.load(case)
    app = raw_dim_indexes(vars_)
    if len(app) == 1:
        return [("rows_dimension",) + app[0]], None
    pd = [("rows_dimension",) + app[-2], ("columns_dimension",) + app[-1]]
    return pd, (app[0] if len(app) >= 3 else None)


def lean_ops(case):
    resp = response(case)
    dicts = resp["result"]["dimensions"]
    pd, table = part_dims(case)
    ops = []
    hints = case.get("hints") or []
    for j, (key, raw, v, axis) in enumerate(pd):
        orders = []
        for h in hints:
            o = h[j] if j < len(h) else None
            if isinstance(o, list) and o not in orders:
                orders.append(o)
        ops.append({"op": "meta_dim", "dicts": dicts, "which": raw, "xf": lean_xf(case["transforms"].get(key, {})),
                    "orders": orders})
    if table is not None:
        vars_, _ = sc.load(case)
        # one op per partition would repeat everything: send the table index list through repeated ops only for k < 4
        for k in range(min(sc.nparts(vars_), 4)):
            ops.append({"op": "meta_dim", "dicts": dicts, "which": table[0], "xf": {}, "orders": [], "table_k": k})
    return ops


# ---------------------------------------------------------------------------------------
# generators


def element_specs(v, axis):
    """per element of the axis: the spellings under which a transform may address it (first = canonical)"""
    if axis == "items":
        return [{"spell": [it["alias"], it["subvar_id"], it["id"], str(it["id"])], "missing": bool(it.get("missing"))}
                for it in v.items]
    return [{"spell": [c["id"], str(c["id"])], "missing": bool(c["missing"])} for c in v.cats]


def gen_xf_value(rng):
    x = {}
    if rng.random() < 0.55:
        x["name"] = rng.choice(NAME_VALUES)
    if rng.random() < 0.45:
        x["fill"] = rng.choice(FILL_VALUES)
    if rng.random() < 0.55:
        x["hide"] = rng.choice(HIDE_VALUES)
    return x


def gen_elements(rng, v, axis):
    specs = element_specs(v, axis)
    pairs = []
    mode = None
    if axis == "items" and rng.random() < 0.2:
        mode = rng.choice(["alias", "subvar_id"])
    for s in specs:
        if rng.random() < 0.6:
            if mode == "alias":
                key = s["spell"][0] if rng.random() < 0.8 else s["spell"][1]
            elif mode == "subvar_id":
                key = s["spell"][1] if rng.random() < 0.8 else s["spell"][0]
            else:
                key = rng.choice(s["spell"])
            pairs.append([key, gen_xf_value(rng)])
            # the same element under a second spelling (int beats str on categorical dims; last entry wins on arrays)
            if rng.random() < 0.12 and mode is None:
                key2 = rng.choice([k for k in s["spell"] if k != key])
                pairs.append([key2, gen_xf_value(rng)])
    # stale references, a position-style reference on arrays
    if rng.random() < 0.4:
        pairs.append([rng.choice([9999, "9999", "no_such", "0099"]), gen_xf_value(rng)])
    if axis == "items" and mode is None and rng.random() < 0.25:
        pos = rng.randrange(len(specs))
        if all(pos != it["id"] for it in v.items):
            pairs.append([rng.choice([pos, str(pos)]), gen_xf_value(rng)])
    rng.shuffle(pairs)
    # a python dict cannot hold a key twice
    seen, out = set(), []
    for k, x in pairs:
        kk = (type(k).__name__, k)
        if kk not in seen:
            seen.add(kk)
            out.append([k, x])
    return out, mode


def decorate_insertion(rng, d, k):
    r = rng.random()
    if r < 0.15:
        d["name"] = ""
    elif r < 0.25:
        d["name"] = None
    elif r < 0.3:
        d.pop("name", None)       # malformed: dropped by the gauntlet
    else:
        d["name"] = "Sub %d" % k
    r = rng.random()
    if r < 0.4:
        d["alias"] = "sub_al%d" % k
    elif r < 0.5:
        d["alias"] = ""
    elif r < 0.6:
        d["alias"] = None
    r = rng.random()
    if r < 0.35:
        d["fill"] = "#%06x" % (k * 4097 + 17)
    elif r < 0.5:
        d["fill"] = ""
    elif r < 0.6:
        d["fill"] = None
    r = rng.random()
    d.pop("hide", None)
    if r < 0.2:
        d["hide"] = True
    elif r < 0.4:
        d["hide"] = rng.choice([False, None, 1, 1, "true"])
    if rng.random() < 0.35:
        d.pop("id", None)
    return d


def gen_insertions(rng, v, axis):
    if axis == "items" or v.kind in ("text", "binned", "datetime"):
        return None
    ids = [c["id"] for c in v.cats if not c["missing"]]
    all_ids = [c["id"] for c in v.cats]
    if not ids:
        return None
    out = []
    used = set()
    for k in range(rng.randint(0, 3)):
        args = rng.sample(all_ids, rng.randint(1, min(3, len(all_ids))))
        if rng.random() < 0.15:
            args.append(9999)
        anchor = rng.choice(["top", "bottom", "TOP", None, 9999] + ids + [str(i) for i in ids])
        iid = rng.choice([j for j in range(1, 12) if j not in used])
        used.add(iid)
        d = {"function": "subtotal", "args": args, "anchor": anchor, "id": iid}
        if rng.random() < 0.25 and len(all_ids) > 1:
            d["kwargs"] = {"negative": rng.sample(all_ids, 1)}
        if rng.random() < 0.08:
            d["function"] = "any_selected"
        out.append(decorate_insertion(rng, d, k))
    if rng.random() < 0.1:
        out.append(None)
    return out


def gen_mr_hide_insertions(rng, v):
    """transform-level copies of MR view insertions with a hide flag (`Elements._hidden_transforms`)"""
    out = []
    for it in v.items:
        if rng.random() < (0.5 if it.get("derived") else 0.15):
            out.append({"function": "any_selected", "name": it["subvar_id"],
                        "hide": rng.choice([True, True, False, 1, None, "yes"])})
    if rng.random() < 0.2:
        out.append({"function": "any_selected", "name": "no such insertion", "hide": True})
    if rng.random() < 0.2:
        out.append({"function": "any_selected"})      # no name, not hidden: never read
    return out


def gen_dim_transforms(rng, v, axis, opp, strand):
    from props.c05 import gen_order
    td = {}
    if rng.random() < 0.85:
        pairs, mode = gen_elements(rng, v, axis)
        td["elements"] = pairs
        if mode:
            td["elements_key"] = mode
    view = None
    ins = gen_insertions(rng, v, axis)
    if ins is not None:
        r = rng.random()
        if r < 0.5:
            td["insertions"] = ins
        elif r < 0.75:
            view = ins
        elif r < 0.9:
            # both: the transform-level list replaces the view-level one entirely
            view = ins
            td["insertions"] = gen_insertions(rng, v, axis) or []
    if axis == "items" and v.kind == "mr" and rng.random() < 0.5:
        td["insertions"] = gen_mr_hide_insertions(rng, v)
    if rng.random() < 0.4:
        td["prune"] = True
    r = rng.random()
    if r < 0.3:
        td["name"] = rng.choice(["Dim renamed", "", None, 0])
    r = rng.random()
    if r < 0.3:
        td["description"] = rng.choice(["Described", "", None])
    if axis == "items" or v.kind != "ca":
        # gen_order addresses the elements of the (first) apparent dimension of a variable
        class _V:
            pass
        o = gen_order(rng, v, opp, [i for i in (td.get("insertions") or []) if isinstance(i, dict) and "id" in i], [], strand)
        if axis == "cats" and v.is_array:
            o = None
        if o is not None and o.get("type") != "opposing_insertion":
            td["order"] = o
    return td, view


def gen_patches(rng, vars_):
    patches = []
    for raw, v, axis in raw_dim_indexes(vars_):
        n = len(v.items) if axis == "items" else len(v.cats)
        for j in range(n):
            r = rng.random()
            if axis == "items":
                if r < 0.08:
                    patches.append({"dim": raw, "where": "item", "elem": j, "key": "name", "value": ""})
                elif r < 0.14:
                    patches.append({"dim": raw, "where": "item", "elem": j, "key": "name", "delete": True})
                elif r < 0.18:
                    patches.append({"dim": raw, "where": "item", "elem": j, "key": "name", "value": None})
            elif v.kind in ("cat", "cat_date", "logical", "mr", "ca"):
                if r < 0.06:
                    patches.append({"dim": raw, "where": "elem", "elem": j, "key": "name", "value": ""})
                elif r < 0.08:
                    patches.append({"dim": raw, "where": "elem", "elem": j, "key": "name", "value": 0})
                elif r < 0.14:
                    patches.append({"dim": raw, "where": "elem", "elem": j, "key": "name", "value": None})
                elif r < 0.18:
                    patches.append({"dim": raw, "where": "elem", "elem": j, "key": "name", "delete": True})
        r = rng.random()
        if r < 0.1:
            patches.append({"dim": raw, "where": "refs", "key": "name", "value": None})
        elif r < 0.2:
            patches.append({"dim": raw, "where": "refs", "key": "name", "delete": True})
        elif r < 0.25:
            patches.append({"dim": raw, "where": "refs", "key": "name", "value": ""})
        r = rng.random()
        if r < 0.15:
            patches.append({"dim": raw, "where": "refs", "key": "description", "value": None})
        elif r < 0.3:
            patches.append({"dim": raw, "where": "refs", "key": "description", "delete": True})
        if v.kind == "mr" and axis == "items" and rng.random() < 0.4:
            patches.append({"dim": raw, "where": "refs", "key": "selected_categories",
                            "value": rng.choice([[{"name": "Very"}, {"name": ""}, {}, {"name": "Quite"}], [], None,
                                                 [{"name": "Selected", "id": 1}]])})
    return patches


def gen_case(rng, max_n=4):
    nd = rng.choice([1, 1, 2, 2, 2, 2, 3])
    kinds = [rng.choice(KINDS) for _ in range(nd)]
    if nd == 2 and rng.random() < 0.15:
        kinds = ["ca"]
    case = sc.gen_case(rng, kinds=kinds, max_n=max_n, derived_items=True, n_resp=rng.randint(0, 14))
    vars_, survey = sc.load(case)
    case["patches"] = gen_patches(rng, vars_)
    app = raw_dim_indexes(vars_)
    tr = {}
    if len(app) == 1:
        td, view = gen_dim_transforms(rng, app[0][1], app[0][2], None, True)
        _set_view(case, vars_, app[0][1], view)
        tr["rows_dimension"] = td
    else:
        (r_raw, R, r_axis), (c_raw, C, c_axis) = app[-2], app[-1]
        cd, cview = gen_dim_transforms(rng, C, c_axis, R, False)
        rd, rview = gen_dim_transforms(rng, R, r_axis, C, False)
        _set_view(case, vars_, C, cview)
        if R is not C:
            _set_view(case, vars_, R, rview)
        tr["rows_dimension"] = rd
        tr["columns_dimension"] = cd
    case["transforms"] = tr
    case["hints"] = library_orders(case, tr)
    return case


def _set_view(case, vars_, v, view):
    if view is None or v.is_array:
        return
    for d in case["vars"]:
        if d["alias"] == v.alias:
            d["view_insertions"] = view


def library_orders(case, tr):
    """display orders per partition as the tree under test reports them (hints for the Lean assembly only)"""
    try:
        cube = make_cube(case, tr)
        out = []
        for p in cube.partitions:
            ro = common.call_impl(lambda: p.row_order())
            co = common.call_impl(lambda: p.column_order()) if type(p).__name__ == "_Slice" else None
            out.append([ro, co] if co is not None else [ro])
        return out
    except Exception:  # noqa
        return []


# ---------------------------------------------------------------------------------------
# observing the library


def fills_of(dim):
    return [e.fill for e in dim.valid_elements], [s.fill for s in dim.subtotals]


def observe_dim(dim):
    g = common.call_impl
    ef = g(lambda: [e.fill for e in dim.valid_elements])
    sf = g(lambda: [s.fill for s in dim.subtotals])
    return {
        "ids": g(lambda: dim.element_ids), "labels": g(lambda: dim.element_labels),
        "aliases": g(lambda: dim.element_aliases), "fills": ef, "hidden_idxs": g(lambda: dim.hidden_idxs),
        "numeric": g(lambda: dim.numeric_values), "sub_labels": g(lambda: dim.subtotal_labels),
        "sub_aliases": g(lambda: dim.subtotal_aliases), "sub_fills": sf, "ins_ids": g(lambda: dim.insertion_ids),
        "name": g(lambda: dim.name), "description": g(lambda: dim.description), "alias": g(lambda: dim.alias),
        "type": g(lambda: dim.dimension_type.name),
    }


def observe_part(p):
    """public metadata outputs per axis + scalars"""
    g = common.call_impl
    is_slice = type(p).__name__ == "_Slice"     # (hasattr would EVALUATE the lazyproperty)
    rows = {"order": g(lambda: p.row_order()), "labels": g(lambda: p.row_labels), "codes": g(lambda: p.row_codes),
            "aliases": g(lambda: p.row_aliases), "fills": g(lambda: p.rows_dimension_fills),
            "dim_name": g(lambda: p.rows_dimension_name), "dim_description": g(lambda: p.rows_dimension_description),
            "dim_alias": g(lambda: p.rows_dimension_alias), "dim_type": g(lambda: p.rows_dimension_type.name)}
    axes = [rows]
    if is_slice:
        rows["numeric"] = g(lambda: p._rows_dimension_numeric_values)
        cols = {"order": g(lambda: p.column_order()), "labels": g(lambda: p.column_labels),
                "codes": g(lambda: p.column_codes), "aliases": g(lambda: p.column_aliases),
                "numeric": g(lambda: p._columns_dimension_numeric_values),
                "dim_name": g(lambda: p.columns_dimension_name),
                "dim_description": g(lambda: p.columns_dimension_description),
                "dim_type": g(lambda: p.columns_dimension_type.name)}
        axes.append(cols)
    scal = {"name": g(lambda: p.name), "table_name": g(lambda: p.table_name), "shape": g(lambda: p.shape),
            "selected_category_labels": g(lambda: p.selected_category_labels),
            "variable_name": g(lambda: p.variable_name), "dimension_types": g(lambda: p.dimension_types)}
    if is_slice:
        scal["description"] = g(lambda: p.description)
    return axes, scal


def norm(x):
    """model JSON -> the canonical form of impl outputs ("nan" -> nan, codes may be numpy-stringified)"""
    return x


def norm_num(x):
    if isinstance(x, list):
        return [float("nan") if v == "nan" else v for v in x]
    return x


def canon_codes(x):
    if isinstance(x, list):
        return [int(v) if isinstance(v, str) and v.lstrip("-").isdigit() else v for v in x]
    return x


def close(a, b):
    return common.deep_close(a, b)[0]


def strip(tr):
    """strip(t): order, prune and every element `hide` removed (entries are kept, possibly empty); insertions with
    their own hide flag, renames and fills stay"""
    out = {}
    for k, td in tr.items():
        nd = {}
        for kk, vv in td.items():
            if kk in ("order", "prune"):
                continue
            if kk == "elements":
                nd[kk] = [[key, {a: b for a, b in x.items() if a != "hide"}] for key, x in vv]
            else:
                nd[kk] = copy.deepcopy(vv)
        out[k] = nd
    return out


def index_py(base, subs, o):
    """python's own `(base + subs)[i]`"""
    l = list(base) + list(subs)
    return [l[i] for i in o]


def fills_py(ef, sf, o):
    return [ef[i] if i >= 0 else sf[i + len(sf)] for i in o]


def short(x):
    return sc._short(x)


# ---------------------------------------------------------------------------------------
# checks


def model_check(case, louts, findings, ctx, cube=None):
    """library vs Lean model at the dimension seam and at the public outputs"""
    pd, table = part_dims(case)
    cube = cube or make_cube(case, case["transforms"])
    parts = cube.partitions
    hints = case.get("hints") or []
    for k, p in enumerate(parts):
        dims = p._dimensions
        axes, scal = observe_part(p)
        for j, (key, raw, v, axis) in enumerate(pd):
            m = louts[j]
            if "error" in m:
                raise common.HarnessFault("meta_dim: %s" % m["error"])
            od = observe_dim(dims[j])
            for f in ("ids", "labels", "aliases", "fills", "hidden_idxs", "numeric", "sub_labels", "sub_aliases",
                      "sub_fills", "ins_ids", "name", "description", "alias", "type"):
                exp = norm_num(m[f]) if f == "numeric" else norm(m[f])
                if not close(od[f], exp):
                    findings.append({"kind": "model", "locus": "meta.dim.%s" % f,
                                     "detail": "k=%d %s impl=%s model=%s" % (k, key, short(od[f]), short(exp))})
            ax = axes[j]
            o = ax["order"]
            if not isinstance(o, list):
                continue
            # assembled outputs: Lean's own assembly when the order is one of the probe orders
            hint_orders = []
            for h in hints:
                oo = h[j] if j < len(h) else None
                if isinstance(oo, list) and oo not in hint_orders:
                    hint_orders.append(oo)
            asm = m["assembled"][hint_orders.index(o)] if o in hint_orders and len(m["assembled"]) == len(hint_orders) else None
            ctx.count("assembled_by_lean" if asm is not None else "assembled_by_python_index")
            for f, base, subs in (("labels", "labels", "sub_labels"), ("aliases", "aliases", "sub_aliases"),
                                  ("codes", "ids", "ins_ids"), ("fills", "fills", "sub_fills"), ("numeric", "numeric", None)):
                if f not in ax:
                    continue
                if asm is not None:
                    exp = norm_num(asm[f]) if f == "numeric" else norm(asm[f])
                else:
                    b, s = (norm_num(m[base]) if f == "numeric" else norm(m[base])), (norm(m[subs]) if subs else None)
                    if isinstance(b, dict) or isinstance(s, dict):
                        exp = b if isinstance(b, dict) else s
                    else:
                        try:
                            if f == "fills":
                                exp = fills_py(b, s, o)
                            elif f == "numeric":
                                exp = [b[i] if i >= 0 else float("nan") for i in o]
                            else:
                                exp = index_py(b, s, o)
                        except IndexError:
                            exp = {"raises": "IndexError"}
                got = canon_codes(ax[f]) if f == "codes" else ax[f]
                if f == "codes":
                    exp = canon_codes(exp)
                if not close(got, exp):
                    findings.append({"kind": "model", "locus": "meta.part.%s_%s" % ("row" if j == 0 else "column", f),
                                     "detail": "k=%d order=%r impl=%s model=%s" % (k, o, short(got), short(exp))})
            for f, mf in (("dim_name", "name"), ("dim_description", "description"), ("dim_alias", "alias"), ("dim_type", "type")):
                if f in ax and not close(ax[f], norm(m[mf])):
                    findings.append({"kind": "model", "locus": "meta.part.%s" % f,
                                     "detail": "k=%d %s impl=%s model=%s" % (k, key, short(ax[f]), short(m[mf]))})
        # name = rows-dimension name; table_name
        if not close(scal["name"], norm(louts[0]["name"])):
            findings.append({"kind": "model", "locus": "meta.part.name", "detail": "k=%d impl=%s model=%s" % (k, scal["name"], louts[0]["name"])})
        if table is not None and k < 4:
            tm = louts[len(pd) + k]
            if not close(scal["table_name"], tm["table_name"]):
                findings.append({"kind": "model", "locus": "meta.part.table_name",
                                 "detail": "k=%d impl=%s model=%s" % (k, scal["table_name"], tm["table_name"])})
        elif table is None and type(p).__name__ == "_Slice" and scal["table_name"] is not None:
            findings.append({"kind": "model", "locus": "meta.part.table_name", "detail": "2-D slice has table name %r" % (scal["table_name"],)})
    return cube


def py_spec_entry(pairs, spell):
    """the transform the statement assigns to a CATEGORICAL element: the entry keyed by its int id or by its decimal
    string; None (undetermined) when both are present"""
    hits = [x for k, x in pairs if any(type(k) is type(s) and k == s for s in spell)]
    if len(hits) > 1:
        return None
    return hits[0] if hits else {}


def spec_label(payload, x):
    if "name" in x:
        n = x["name"]
        return (n if isinstance(n, str) else str(n)) if n else ""
    return payload


def spec_hidden(x):
    return x.get("hide") is True


def spec_fill(x):
    f = x.get("fill")
    return f if f else None


def spec_dim(case, key, raw, v, axis, m):
    """per VALID element (labels, hidden, fills) as the statement gives them, or None where it is silent"""
    td = case["transforms"].get(key, {})
    if axis == "items":
        s = m.get("spec")
        if not s:
            return None
        return {"labels": s["labels"], "hidden": s["hidden"], "fills": s["fills"]}
    if td.get("elements_key"):
        return None
    pairs = td.get("elements") or []
    resp_dim = response(case)["result"]["dimensions"][raw]
    cats = resp_dim["type"].get("categories")
    if cats is None:
        cats = resp_dim["type"]["elements"]
    order = resp_dim["type"].get("order")
    if order is not None:
        by = {c["id"]: c for c in cats}
        cats = [by[i] for i in order if i in by]
    labels, hidden, fills = [], [], []
    for c in cats:
        if c.get("missing"):
            continue
        x = py_spec_entry(pairs, [c["id"], str(c["id"])])
        if x is None:
            labels.append(None); hidden.append(None); fills.append(("?",))
            continue
        if "name" in c:
            labels.append(spec_label(c["name"] if c["name"] else "", x))
        else:
            labels.append(spec_label(None, x) if "name" in x else None)
        hidden.append(spec_hidden(x))
        fills.append(spec_fill(x))
    return {"labels": labels, "hidden": hidden, "fills": fills}


def describe(case):
    d = sc.describe(case)
    d["transforms"] = case["transforms"]
    d["patches"] = len(case.get("patches", []))
    return d


def shrink_candidates(case):
    for c in sc.shrink_candidates(case):
        yield c
    tr = case["transforms"]
    for key, td in tr.items():
        for kk in list(td.keys()):
            nt = copy.deepcopy(tr)
            del nt[key][kk]
            yield dict(case, transforms=nt)
        for i in range(len(td.get("elements") or [])):
            nt = copy.deepcopy(tr)
            del nt[key]["elements"][i]
            yield dict(case, transforms=nt)
    if case.get("patches"):
        yield dict(case, patches=[])
