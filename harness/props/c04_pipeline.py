"""C04 extension: merge-equivalence on the END-TO-END pipeline model (Props/C04_Pipeline.lean).

Theorems: for every cube c over [R, C] (R categorical), every row subtotal without subtrahends <A, []> and the recoded cube
(`CubeData.mergeRows`: valid categories A of R merged into one category), the pipeline's value at the inserted row = its value at the
merged category's row of the recoded cube, for counts, bases, proportions, variances / std-err (std-dev, MoE), z-scores, p-values,
population estimates, sums, row share - in base columns, subtotal columns and difference columns; per-key hypotheses (F12 wave
difference; z-score block guards agree) with counterexamples; NaN for means / std-dev / medians / column index.

Correspondence: the behavioural merge oracle is c04.py's (library on the recoded survey, ~45 measures).  It SKIPS z-scores / p-values
when either table has rank < 2.  This module adds what that oracle does not run: the two Lean counterexamples are replayed on the real
library (the values the theorems `zscore_guard_counterexample` / `proportions_catdate_counterexample` state for the model must be the
library's), plus a small random family of rank-changing merges: whenever the library's z-score of a subtotal row differs from the merged
category's, one of the two tables must be NaN there through the block guard (the hypothesis of the theorem), never two different numbers.
"""
import copy
import math
from fractions import Fraction

import common
import gen

PROPERTY = "C04"
LEAN_MODULE = "CrCube.Props.C04_Pipeline"
THEOREMS = [
    "CrCube.C04.slice_blocks_merge_rows",
    "CrCube.C04.slice_blocks_nan_at_subtotal",
    "CrCube.C04.slice_out_merge_rows",
    "CrCube.C04.merged_table_catXcat",
    "CrCube.C04.merged_table_catXmr",
    "CrCube.C04.merged_cube_is_RowMerge",
    "CrCube.C04.pipeline_merge_rows",
    "CrCube.C04.unweighted_base_hyps_catXcat",
    "CrCube.C04.zscore_guard_counterexample",
    "CrCube.C04.proportions_catdate_counterexample",
]
RULE = ("two fixed witnesses (the Lean counterexamples replayed on the real library) + random CAT x CAT tables (2-4 rows, 2-3 columns, "
        "entries 0-3) with one row subtotal of two addends; non-trivial = the subtotal row is non-zero; distinct = (counts, addends)")
ASSUMPTIONS = ["the recoded cube of a CAT x CAT cube is the tabulation with the addend rows summed into one last row (proved equal to "
               "`CubeData.mergeRows` in Lean; here built directly from the counts)"]
TRUSTED_EXTRA = []
EXHAUSTIVE = False


def _cat_var(alias, n, kind="cat"):
    cats = [{"id": i + 1, "missing": False, "name": "%s%d" % (alias, i), "numeric_value": None} for i in range(n)]
    if kind == "cat_date":
        for i, c in enumerate(cats):
            c["date"] = "2020-%02d" % (i + 1)
    return gen.Var(kind, alias, cats=cats)


def _survey(counts):
    s = []
    for i, row in enumerate(counts):
        for j, n in enumerate(row):
            for _ in range(int(n)):
                s.append((Fraction(1), [[i], [j]]))
    return s


def _slice(counts, row_ins=None, col_ins=None, col_kind="cat"):
    common.ensure_repo_on_path()
    from cr.cube.cube import Cube
    R = _cat_var("r", len(counts))
    C = _cat_var("c", len(counts[0]), col_kind)
    resp = gen.cube_response([R, C], _survey(counts), weighted=False)
    tr = {}
    if row_ins:
        tr["rows_dimension"] = {"insertions": copy.deepcopy(row_ins)}
    if col_ins:
        tr["columns_dimension"] = {"insertions": copy.deepcopy(col_ins)}
    return Cube(resp, transforms=tr).partitions[0]


def _merged(counts, addends):
    keep = [r for i, r in enumerate(counts) if i not in addends]
    m = [sum(counts[a][j] for a in addends) for j in range(len(counts[0]))]
    return keep + [m]


def _sub(name, ids, neg=None):
    d = {"function": "subtotal", "name": name, "args": ids, "anchor": "bottom"}
    if neg:
        d["kwargs"] = {"negative": neg}
    return d


def generate(ctx):
    cases = [{"kind": "zwitness"}, {"kind": "f12witness"}]
    rng = ctx.rng
    for _ in range(ctx.n(40, 400)):
        nr = rng.randint(2, 4)
        nc = rng.randint(2, 3)
        counts = [[rng.randint(0, 3) for _ in range(nc)] for _ in range(nr)]
        a = sorted(rng.sample(range(nr), 2))
        cases.append({"kind": "rand", "counts": counts, "addends": a})
    return cases


def lean_ops(case):
    return []


def _isnan(x):
    return isinstance(x, float) and math.isnan(x)


def evaluate(case, louts, ctx):
    findings = []
    if case["kind"] == "zwitness":
        counts = [[1, 0], [0, 1], [1, 1]]
        sl = _slice(counts, row_ins=[_sub("s", [1, 2])])
        sl2 = _slice(_merged(counts, [0, 1]))
        z = common.call_impl(lambda: sl.zscores.tolist())
        z2 = common.call_impl(lambda: sl2.zscores.tolist())
        ok = (isinstance(z, list) and isinstance(z2, list) and len(z) == 4 and abs(z[3][0]) < 1e-12 and _isnan(z2[1][0]))
        if not ok:
            findings.append({"kind": "model", "locus": "pipeline.merge.zscore-guard-witness",
                             "detail": "Lean counterexample (subtotal z = 0, merged category z = NaN) not reproduced: "
                                       "subtotal table zscores %r, merged table zscores %r" % (z, z2)})
        return findings, ("zwitness",)
    if case["kind"] == "f12witness":
        counts = [[1, 2, 3], [4, 5, 6], [7, 8, 9]]
        cins = [_sub("d", [2], [3])]
        sl = _slice(counts, row_ins=[_sub("s", [1, 2])], col_ins=cins, col_kind="cat_date")
        sl2 = _slice(_merged(counts, [0, 1]), col_ins=cins, col_kind="cat_date")
        p = common.call_impl(lambda: sl.column_proportions.tolist())
        p2 = common.call_impl(lambda: sl2.column_proportions.tolist())
        n = common.call_impl(lambda: sl.counts.tolist())
        n2 = common.call_impl(lambda: sl2.counts.tolist())
        ok = (isinstance(p, list) and isinstance(p2, list) and _isnan(p[3][3]) and abs(p2[1][3] + 1.0 / 30) < 1e-12
              and n[3][3] == -2 and n2[1][3] == -2)
        if not ok:
            findings.append({"kind": "model", "locus": "pipeline.merge.catdate-witness",
                             "detail": "Lean counterexample (F12: NaN vs -1/30, counts -2 = -2) not reproduced: %r / %r / %r / %r"
                                       % (p, p2, n, n2)})
        return findings, ("f12witness",)
    counts, a = case["counts"], case["addends"]
    nr = len(counts)
    sl = _slice(counts, row_ins=[_sub("s", [a[0] + 1, a[1] + 1])])
    sl2 = _slice(_merged(counts, a))
    mp = nr - 2
    key = None
    T0 = sum(map(sum, counts))
    for name in ("zscores", "pvals"):
        v = common.call_impl(lambda: getattr(sl, name).tolist())
        v2 = common.call_impl(lambda: getattr(sl2, name).tolist())
        if not (isinstance(v, list) and isinstance(v2, list)) or len(v) != nr + 1 or len(v2) != nr - 1:
            findings.append({"kind": "model", "locus": "pipeline.merge.%s.shape" % name, "detail": "%r / %r" % (v, v2)})
            continue
        row, row2 = v[nr], v2[mp]
        all_nan = all(_isnan(x) for x in row)
        all_nan2 = all(_isnan(x) for x in row2)
        g1, g2 = _guards(counts, a)
        if T0 > 0 and (all_nan != g1 or all_nan2 != g2) and not (all_nan and all_nan2):
            findings.append({"kind": "model", "locus": "pipeline.merge.%s.guard" % name,
                             "detail": "counts %r addends %r: block guards (model) %r/%r, all-NaN rows (library) %r/%r: %r / %r"
                                       % (counts, a, g1, g2, all_nan, all_nan2, row, row2)})
            continue
        if all_nan or all_nan2:
            # the block guard fired in at least one of the two tables: the hypothesis of the theorem fails or both are NaN
            ctx.count("guard_fired:%s" % ("both" if all_nan and all_nan2 else "one"))
            continue
        ok, where = common.deep_close(row, row2)
        if not ok:
            findings.append({"kind": "spec", "locus": "pipeline.merge.%s" % name,
                             "detail": "counts %r addends %r: subtotal row %r, merged category row %r (%s)"
                                       % (counts, a, row, row2, where)})
        ctx.count("compared:%s" % name)
        if any(counts[a[0]]) or any(counts[a[1]]):
            key = ("rand", tuple(map(tuple, counts)), tuple(a))
    return findings, key


def _defective(t):
    """`_Zscores._is_defective` modelled exactly: all 2x2 minors of the integer base block vanish"""
    nr, nc = len(t), len(t[0])
    return all(t[i][j] * t[k][l] - t[i][l] * t[k][j] == 0
               for i in range(nr) for k in range(nr) for j in range(nc) for l in range(nc))


def _guards(counts, a):
    """(guard of the inserted-rows block of the original, guard of the body block of the recoded table) as the
    Lean model computes them (`zGuards`): defective base block, or every row base = table base, or every column base = table base"""
    T = sum(map(sum, counts))
    cols = [sum(r[j] for r in counts) for j in range(len(counts[0]))]
    r_sub = sum(counts[a[0]]) + sum(counts[a[1]])
    g1 = _defective(counts) or r_sub == T or all(c == T for c in cols)
    m = _merged(counts, a)
    g2 = _defective(m) or all(sum(r) == T for r in m) or all(c == T for c in cols)
    return g1, g2


def describe(case):
    return dict(case)
