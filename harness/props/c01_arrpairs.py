"""C01 extension — cell counts for the remaining dimension-type pairings of `_BaseCubeCounts.factory` (MR x ARR,
ARR x ARR) and for cubes in which the two axes of a categorical array straddle another variable, against the
respondent-level statement.

Seams: tabulator vs `cubeOfS1/S2/Fused` (trusted contract incl. the re-arranged renderings), `ap_spec` (Lean Spec, the
reading proved in Props/C01_ArrPairs.lean), `ap_model` (Lean Model), public API counts of every partition, the
`_BaseCubeCounts` object of every partition (class chosen by the factory, its `counts`).  ARR x ARR has no
respondent-level reading (`C01.arrXarr_unreachable`): the library's output is compared with the model only
(`C01.arrXarr_reports_payload`).
"""
import random

import common
from props import _arrpairs_common as ap

PROPERTY = "C01"
LEAN_MODULE = "CrCube.Props.C01_ArrPairs"
THEOREMS = [
    "CrCube.C01.straddle_reading",
    "CrCube.C01.fused_reading",
    "CrCube.C01.fusedMR_reading",
    "CrCube.C01.s1_counts_faithful",
    "CrCube.C01.s1_ucounts_faithful",
    "CrCube.C01.s1_extent",
    "CrCube.C01.s1_type_pair",
    "CrCube.C01.s2_counts_faithful",
    "CrCube.C01.s2_ucounts_faithful",
    "CrCube.C01.s2_extent",
    "CrCube.C01.fused_counts_faithful",
    "CrCube.C01.fused_ucounts_faithful",
    "CrCube.C01.fused_extent",
    "CrCube.C01.arrXarr_reports_payload",
    "CrCube.C01.arrXarr_unreachable",
    "CrCube.C01.type_pairs_reached",
]
RULE = ("categorical array (1-4 items, 2-5 categories; missing categories first / middle / last / all-but-one; a missing "
        "item, the first one too) whose category and item axes straddle an MR (60 %) or cat-like variable in both "
        "orders (payload categories x X x items -> MR x ARR / CAT x ARR slices per valid category; items x X x categories "
        "-> MR x CAT / CAT x CAT slices per item); 1-4 fused MR variables (scorecard, MR x ARR); a raw two-array-axes "
        "response (ARR x ARR; missing elements on both axes); surveys of 0-40 respondents, dyadic weights incl. 0; every "
        "partition; non-trivial = >= 2 distinct positive cell values; distinct = (layout tag, raw unweighted counts)")
ASSUMPTIONS = ["Spec.cubeOf re-arranged as cubeOfS1 / cubeOfS2, and cubeOfFused, are the back end's tabulation for these "
               "layouts (S1 with MR and the fused MR layout are evidenced by the fixtures ca-cat-x-mr-x-ca-subvar-hs.json "
               "and scorecard.json; checked against the Python tabulator per case)",
               "the Lean variable has no missing ITEMS: the model is handed the valid items only (as in C01)"]


def generate(ctx):
    rng = random.Random("C01|arrpairs|%s|%d" % (ctx.tier, ctx.seed))
    return [ap.gen_case(rng, "c01_arrpairs") for _ in range(ctx.n(80, 1600))]


def lean_ops(case):
    return ap.lean_ops(case)


def _flat_pos(m):
    if isinstance(m, list) and all(isinstance(r, list) for r in m):
        return [x for r in m for x in r if isinstance(x, (int, float)) and x > 0]
    return []


def evaluate(case, louts, ctx):
    common.ensure_repo_on_path()
    layout = case["layout"]
    findings = []
    if layout == "aa":
        ctx.count("arrpairs:aa")
        cube = ap.make_cube(case)
        parts = ap.partitions_or_finding(case, cube, None, findings)
        if parts is None:
            return findings, None
        p = parts[0]
        for m, name in ((louts[0], "counts"), (louts[1], "unweighted_counts")):
            if "error" in m:
                raise common.HarnessFault("ap_model: %s" % m["error"])
            ap.compare(findings, "model", "arrpairs.aa.%s" % name, common.call_impl(lambda: getattr(p, name)),
                       common.model_to_float(m["xtr"]["counts"]), "ARR x ARR slice")
        wobj, uobj = ap.ac.seam_objects(cube, 0)
        for obj, which, m in ((wobj, "weighted", louts[0]), (uobj, "unweighted", louts[1])):
            cls = type(obj).__name__
            if cls != ap.CLS[("arr", "arr")]:
                findings.append({"kind": "model", "locus": "arrpairs.aa.seam.extractor_class",
                                 "detail": "%s, expected %s" % (cls, ap.CLS[("arr", "arr")])})
            ap.compare(findings, "model", "arrpairs.aa.seam.counts", common.call_impl(lambda: obj.counts),
                       common.model_to_float(m["xtr"]["counts"]), "%s extractor" % which)
        vals = set(_flat_pos(common.call_impl(lambda: p.unweighted_counts)))
        key = ("aa", tuple(case["data"]), tuple(case["rmissing"]), tuple(case["cmissing"])) if len(vals) >= 2 else None
        return findings, key
    vars_, survey = ap.load(case)
    tg = ap.tag(case, vars_)
    ctx.count("arrpairs:" + tg)
    ap.check_oracles(case, vars_, survey, louts)
    cube = ap.make_cube(case)
    parts = ap.partitions_or_finding(case, cube, vars_, findings)
    if parts is None:
        return findings, None
    rk, ck = ap.slice_kinds(case, vars_)
    vals = set()
    for k, p in enumerate(parts):
        sp, mw, mu = louts[1 + 3 * k], louts[2 + 3 * k], louts[3 + 3 * k]
        for m in (mw, mu):
            if "error" in m:
                raise common.HarnessFault("ap_model: %s" % m["error"])
        sw = common.model_to_float(sp["counts"] if case["weighted"] else sp["ucounts"])
        su = common.model_to_float(sp["ucounts"])
        ic = common.call_impl(lambda: p.counts)
        iu = common.call_impl(lambda: p.unweighted_counts)
        ap.compare(findings, "spec", "arrpairs.%s.counts" % tg, ic, sw, "partition %d" % k)
        ap.compare(findings, "spec", "arrpairs.%s.unweighted_counts" % tg, iu, su, "partition %d" % k)
        wobj, uobj = ap.ac.seam_objects(cube, k)
        for obj, which, m in ((wobj, "weighted", mw), (uobj, "unweighted", mu)):
            cls = type(obj).__name__
            if cls != ap.CLS[(rk, ck)]:
                findings.append({"kind": "model", "locus": "arrpairs.%s.seam.extractor_class" % tg,
                                 "detail": "partition %d: %s, expected %s" % (k, cls, ap.CLS[(rk, ck)])})
            ap.compare(findings, "model", "arrpairs.%s.seam.counts" % tg, common.call_impl(lambda: obj.counts),
                       common.model_to_float(m["xtr"]["counts"]), "partition %d %s extractor" % (k, which))
        vals.update(_flat_pos(ic))
    key = (tg, tuple(louts[0]["unweighted"])) if len(vals) >= 2 else None
    return findings, key


describe = ap.describe
shrink_candidates = ap.shrink_candidates
