"""C02 extension — bases and margins for the remaining dimension-type pairings of `_BaseCubeCounts.factory` (MR x ARR,
ARR x ARR) and for cubes in which the two axes of a categorical array straddle another variable, against the
respondent-level statement.

What each base IS (Props/C02_ArrPairs.lean): for a slice whose COLUMNS are array items / fused variables (MR x ARR,
CAT x ARR) the row base of a cell is the cell's own count (nothing is ever added across items), the column base is "member
of the column [in the partition] with a valid answer on the rows variable" (MR rows: non-missing on THAT item, so it
varies by cell), the table base is the column base.  An item-k partition of the other straddle (items x X x categories)
is an ordinary X x CAT table of that item.  1-D margins / the scalar exist exactly where the extractor class defines
them (s1_margins, fused_margins, arrXarr_bases) and are then the collapsed per-cell bases; otherwise the public margin
falls back to the 2-D bases (C02.rows/columnsMargin_cases).
"""
import random

import common
from props import _arrpairs_common as ap
from props import _arr_common as ac

PROPERTY = "C02"
LEAN_MODULE = "CrCube.Props.C02_ArrPairs"
THEOREMS = [
    "CrCube.C02.s1_bases_spec",
    "CrCube.C02.s1_margins",
    "CrCube.C02.s2_bases_spec",
    "CrCube.C02.fused_bases_spec",
    "CrCube.C02.fused_margins",
    "CrCube.C02.arrXarr_bases",
]
RULE = ("the two real fixtures that evidence the layouts (ca-cat-x-mr-x-ca-subvar-hs.json, scorecard.json: library vs model "
        "on the real payload), then designs as in c01_arrpairs (straddled categorical array in both orders around an MR or cat-like variable; fused "
        "MR variables; raw two-array-axes response); every 2-D base (weighted and unweighted), every margin, the table "
        "base / margin and their ranges of every partition vs the respondent-level spec; all 11 attributes of both "
        "`_BaseCubeCounts` objects vs the model; non-trivial = >= 2 distinct unweighted base values in some partition; "
        "distinct = (layout tag, raw unweighted counts)")
ASSUMPTIONS = ["cubeOfS1 / cubeOfS2 / cubeOfFused are the back end's tabulation for these layouts (checked against the "
               "Python tabulator per case)"]

BASES_2D = [("row_weighted_bases", "row_bases", True), ("column_weighted_bases", "column_bases", True),
            ("table_weighted_bases", "table_bases", True), ("row_unweighted_bases", "row_bases", False),
            ("column_unweighted_bases", "column_bases", False), ("table_unweighted_bases", "table_bases", False)]
MARGINS = ["rows_base", "columns_base", "table_base", "table_base_range", "rows_margin", "columns_margin",
           "table_margin", "table_margin_range"]


def generate(ctx):
    rng = random.Random("C02|arrpairs|%s|%d" % (ctx.tier, ctx.seed))
    fx = ap.fixture_cases("c02_arrpairs")
    ctx.count("arrpairs:fixtures_replayed", len(fx))
    return fx + [ap.gen_case(rng, "c02_arrpairs") for _ in range(ctx.n(80, 1600))]


def lean_ops(case):
    return ap.lean_ops(case)


def _col0(m):
    return [row[0] for row in m]


def _margins(rk, ck, row, col, tab):
    """public margins as collapsed per-cell bases (same function for weighted and unweighted)"""
    out = {}
    out["rows"] = _col0(row) if (rk, ck) in ac.ROWS_BASE_DEFINED else row
    out["columns"] = col[0] if (rk, ck) in ac.COLS_BASE_DEFINED else col
    if (rk, ck) == ("cat", "cat"):
        out["table"] = tab[0][0]
    elif (rk, ck) in ac.COLS_BASE_DEFINED:
        out["table"] = tab[0]
    elif (rk, ck) in ac.ROWS_BASE_DEFINED:
        out["table"] = _col0(tab)
    else:
        out["table"] = tab
    flat = [x for r in tab for x in r]
    out["range"] = [min(flat), max(flat)]
    return out


def _check_margins(findings, kind, tg, p, rk, ck, b, det):
    """b: name -> 2-D list for the six BASES_2D names"""
    mu_ = _margins(rk, ck, b["row_unweighted_bases"], b["column_unweighted_bases"], b["table_unweighted_bases"])
    mw_ = _margins(rk, ck, b["row_weighted_bases"], b["column_weighted_bases"], b["table_weighted_bases"])
    exp = {"rows_base": mu_["rows"], "columns_base": mu_["columns"], "table_base": mu_["table"],
           "table_base_range": mu_["range"], "rows_margin": mw_["rows"], "columns_margin": mw_["columns"],
           "table_margin": mw_["table"], "table_margin_range": mw_["range"]}
    for name in MARGINS:
        ap.compare(findings, kind, "arrpairs.%s.%s" % (tg, name), common.call_impl(lambda: getattr(p, name)), exp[name], det)


def evaluate(case, louts, ctx):
    common.ensure_repo_on_path()
    layout = case["layout"]
    findings = []
    if layout == "fixture":
        ctx.count("arrpairs:fixture." + case["as"])
        findings = ap.fixture_evaluate(case, louts, BASES_2D, _check_margins)
        return findings, ("fixture", case["name"])
    w = case["weighted"]
    if layout == "aa":
        ctx.count("arrpairs:aa")
        for m in louts:
            if "error" in m:
                raise common.HarnessFault("ap_model: %s" % m["error"])
        cube = ap.make_cube(case)
        parts = ap.partitions_or_finding(case, cube, None, findings)
        if parts is None:
            return findings, None
        p = parts[0]
        mw, mu = louts[0]["xtr"], louts[1]["xtr"]
        b = {}
        for name, skey, wtd in BASES_2D:
            exp = common.model_to_float((mw if wtd else mu)[skey])
            b[name] = exp
            ap.compare(findings, "model", "arrpairs.aa.%s" % (skey if wtd else "u" + skey),
                       common.call_impl(lambda: getattr(p, name)), exp, name)
        if b["table_unweighted_bases"] and b["table_unweighted_bases"][0]:
            _check_margins(findings, "model", "aa", p, "arr", "arr", b, "ARR x ARR slice")
        wobj, uobj = ac.seam_objects(cube, 0)
        for obj, which, m in ((wobj, "weighted", mw), (uobj, "unweighted", mu)):
            cls = type(obj).__name__
            if cls != ap.CLS[("arr", "arr")]:
                findings.append({"kind": "model", "locus": "arrpairs.aa.seam.extractor_class",
                                 "detail": "%s, expected %s" % (cls, ap.CLS[("arr", "arr")])})
                continue
            ap.compare_xtr(findings, "aa", obj, m, 0, which)
        vals = {x for r in b["table_unweighted_bases"] for x in r}
        key = ("aa", tuple(case["data"]), tuple(case["rmissing"]), tuple(case["cmissing"])) if len(vals) >= 2 else None
        return findings, key
    vars_, survey = ap.load(case)
    tg = ap.tag(case, vars_)
    ctx.count("arrpairs:" + tg)
    ap.check_oracles(case, vars_, survey, louts)
    cube = ap.make_cube(case)
    parts = ap.partitions_or_finding(case, cube, vars_, findings)
    if parts is None:
        return findings, None
    rk, ck = ap.slice_kinds(case, vars_)
    nontrivial = False
    for k, p in enumerate(parts):
        sp, mw, mu = louts[1 + 3 * k], louts[2 + 3 * k], louts[3 + 3 * k]
        for m in (mw, mu):
            if "error" in m:
                raise common.HarnessFault("ap_model: %s" % m["error"])
        det = "partition %d" % k
        spec = {}
        for name, skey, wtd in BASES_2D:
            exp = common.model_to_float(sp[skey if (wtd and w) else "u" + skey])
            spec[name] = exp
            ap.compare(findings, "spec", "arrpairs.%s.%s" % (tg, skey if wtd else "u" + skey),
                       common.call_impl(lambda: getattr(p, name)), exp, det + " " + name)
        if spec["table_unweighted_bases"] and spec["table_unweighted_bases"][0]:
            _check_margins(findings, "spec", tg, p, rk, ck, spec, det)
            vals = {x for r in spec["table_unweighted_bases"] for x in r} | {x for r in spec["row_unweighted_bases"] for x in r}
            nontrivial = nontrivial or len(vals) >= 2
            ctx.count("arrpairs_zero_base", int(0 in vals))
        wobj, uobj = ac.seam_objects(cube, k)
        for obj, which, m in ((wobj, "weighted", mw), (uobj, "unweighted", mu)):
            cls = type(obj).__name__
            if cls != ap.CLS[(rk, ck)]:
                findings.append({"kind": "model", "locus": "arrpairs.%s.seam.extractor_class" % tg,
                                 "detail": "%s: %s, expected %s" % (det, cls, ap.CLS[(rk, ck)])})
                continue
            ap.compare_xtr(findings, tg, obj, m["xtr"], k, which)
    key = (tg, tuple(louts[0]["unweighted"])) if nontrivial else None
    return findings, key


describe = ap.describe
shrink_candidates = ap.shrink_candidates
