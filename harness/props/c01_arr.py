"""C01 extension — cell counts of cubes in which a categorical array is crossed with another variable, of the
transposed (categories x items) layout and of CA-as-0th strands, against the respondent-level statement.

Seams: tabulator vs `cubeOf` / `cubeOfT` (trusted contract incl. its transposed rendering), `arr_spec` (Lean Spec,
the reading proved in Props/C01_Arr.lean), `arr_model` (Lean Model), public API counts of every partition, the
`_BaseCubeCounts` object of every partition (class chosen by the factory, its `counts`).
"""
import random

import common
from props import _arr_common as ac

PROPERTY = "C01"
LEAN_MODULE = "CrCube.Props.C01_Arr"
THEOREMS = [
    "CrCube.C01.cmXca_reading",
    "CrCube.C01.caXcm_reading",
    "CrCube.C01.ca_reading",
    "CrCube.C01.cmXca_counts_faithful",
    "CrCube.C01.cmXca_ucounts_faithful",
    "CrCube.C01.cmXca_extent",
    "CrCube.C01.caXcm_counts_faithful",
    "CrCube.C01.caXcm_ucounts_faithful",
    "CrCube.C01.caXcm_extent",
    "CrCube.C01.caT_counts_faithful",
    "CrCube.C01.caT_ucounts_faithful",
    "CrCube.C01.caT_extent",
    "CrCube.C01.caTXcm_counts_faithful",
    "CrCube.C01.caTXcm_ucounts_faithful",
    "CrCube.C01.caTXcm_extent",
    "CrCube.C01.cmXcaT_counts_faithful",
    "CrCube.C01.cmXcaT_ucounts_faithful",
    "CrCube.C01.cmXcaT_extent",
    "CrCube.C01.ca0th_counts_faithful",
    "CrCube.C01.ca0th_extent",
]
RULE = ("categorical array (1-4 items, 2-5 categories; missing categories first / middle / last / all-but-one; a missing "
        "item, the first one too) alone, under a cat-like or MR table variable, leading a cat-like or MR variable, "
        "transposed (alone / leading), or CA-as-0th; surveys of 0-40 respondents, dyadic weights incl. 0; every "
        "partition; non-trivial = >= 2 distinct positive cell values; distinct = (layout tag, raw unweighted counts)")
ASSUMPTIONS = ["Spec.cubeOf / cubeOfT is the back end's tabulation (checked against the Python tabulator per case)",
               "the Lean variable has no missing ITEMS: the model is handed the valid items only (as in C01)"]


def generate(ctx):
    # a private stream derived from the seed: the shared ctx.rng of the modules loaded after this one is untouched
    rng = random.Random("C01|arr|%s|%d" % (ctx.tier, ctx.seed))
    return [ac.gen_case(rng, "c01_arr") for _ in range(ctx.n(110, 2200))]


def lean_ops(case):
    return ac.lean_ops(case)


def evaluate(case, louts, ctx):
    common.ensure_repo_on_path()
    vars_, survey = ac.load(case)
    layout = case["layout"]
    tg = ac.tag(layout, vars_)
    ctx.count("arr:" + tg)
    ac.check_oracles(case, vars_, survey, louts)
    findings = []
    cube = ac.make_cube(case)
    parts = ac.partitions_or_finding(case, cube, vars_, findings)
    if parts is None:
        return findings, None
    vals = set()
    for k, p in enumerate(parts):
        sp, mw, mu = louts[1 + 3 * k], louts[2 + 3 * k], louts[3 + 3 * k]
        sw = common.model_to_float(sp["counts"] if case["weighted"] else sp["ucounts"])
        su = common.model_to_float(sp["ucounts"])
        ic = common.call_impl(lambda: p.counts)
        iu = common.call_impl(lambda: p.unweighted_counts)
        ac.compare(findings, "spec", "arr.%s.counts" % tg, ic, sw, "partition %d" % k)
        ac.compare(findings, "spec", "arr.%s.unweighted_counts" % tg, iu, su, "partition %d" % k)
        if layout == "ca0":
            ac.compare(findings, "model", "arr.%s.seam.counts" % tg, ic,
                       common.model_to_float(mw["stripe"]["counts"]), "partition %d" % k)
            ac.compare(findings, "model", "arr.%s.seam.counts" % tg, iu,
                       common.model_to_float(mu["stripe"]["counts"]), "partition %d unweighted" % k)
            flat = ic if isinstance(ic, list) else []
        else:
            rk, ck = ac.slice_kinds(layout, vars_)
            wobj, uobj = ac.seam_objects(cube, k)
            for obj, which, m in ((wobj, "weighted", mw), (uobj, "unweighted", mu)):
                cls = type(obj).__name__
                if cls != ac.CLS[(rk, ck)]:
                    findings.append({"kind": "model", "locus": "arr.%s.seam.extractor_class" % tg,
                                     "detail": "partition %d: %s, expected %s" % (k, cls, ac.CLS[(rk, ck)])})
                ac.compare(findings, "model", "arr.%s.seam.counts" % tg, common.call_impl(lambda: obj.counts),
                           common.model_to_float(m["xtr"]["counts"]), "partition %d %s extractor" % (k, which))
            flat = [x for row in ic for x in row] if isinstance(ic, list) and all(isinstance(r, list) for r in ic) else []
        vals.update(x for x in flat if isinstance(x, (int, float)) and x > 0)
    key = (tg, tuple(louts[0]["unweighted"])) if len(vals) >= 2 else None
    return findings, key


describe = ac.describe
shrink_candidates = ac.shrink_candidates
