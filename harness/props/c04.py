"""C04 — subtotals behave as merged categories; differences as signed merges.

Seams
  dim : real `Dimension.subtotals` (addend_idxs / subtrahend_idxs / is_difference) vs Model.resolveSubtotals
  blk : real `SumSubtotals / PositiveTermSubtotals / NegativeTermSubtotals / NanSubtotals / OverlapSubtotals
        .blocks(base, dimensions, ...)` and `WaveDiffSubtotal.subtotal_columns/rows` (stripe twins too) on a
        random base matrix (NaN / inf included) vs the Lean block constructors
  msr/api : every C04 measure of `_Slice` / `_Strand`, all four blocks, vs the Lean measure model
  spec: (a) inserted counts = signed merge BY IDS (Lean Spec), both accumulation orders;
        (b) NaN measures, difference rules, categorical-date wave differences, diff idxs;
        (c) MERGE ORACLE: the library run on the data set in which the addends are merged into one
            category must show, for the merged category, what the subtotal shows (every additive measure).
"""
from fractions import Fraction
import copy
import itertools
import math

import gen
import common
from props import _subtotals as S

PROPERTY = "C04"
LEAN_MODULE = "CrCube.Props.C04"
THEOREMS = [
    "CrCube.C04.gauntlet_drops_stale",
    "CrCube.C04.transform_replaces_view",
    "CrCube.C04.subtotal_count",
    "CrCube.C04.subtotal_count_col",
    "CrCube.C04.subtotal_count_block",
    "CrCube.C04.subtotal_count_strand",
    "CrCube.C04.sumListed_congr",
    "CrCube.C04.sumListed_stale",
    "CrCube.C04.sumListed_dup",
    "CrCube.C04.sumListed_eq_sum_ids",
    "CrCube.C04.intersection_symmetric",
    "CrCube.C04.signedMerge_symmetric",
    "CrCube.C04.nan_measures",
    "CrCube.C04.nan_measures_strand",
    "CrCube.C04.diff_row_base_nan",
    "CrCube.C04.diff_col_base_nan",
    "CrCube.C04.diff_row_proportion_nan",
    "CrCube.C04.diff_col_proportion_nan",
    "CrCube.C04.diff_x_diff_nan",
    "CrCube.C04.valid_counts_diff_nan",
    "CrCube.C04.diff_count_signed",
    "CrCube.C04.wave_diff_rows",
    "CrCube.C04.wave_diff_cols",
    "CrCube.C04.wave_diff_rows_body",
    "CrCube.C04.wave_diff_multi_rows",
    "CrCube.C04.wave_diff_multi_cols",
    "CrCube.C04.wave_diff_strand",
    "CrCube.C04.wave_diff_multi_strand",
    "CrCube.C04.wave_diff_multi_legacy_counterexample",
    "CrCube.C04.multiLegacy_eq_multi",
    "CrCube.C04.merge_equiv_rows",
    "CrCube.C04.merge_equiv_cols",
    "CrCube.C04.cellwise_rows",
    "CrCube.C04.cellwise_cols",
    "CrCube.C04.merge_equiv_proportions_rows",
    "CrCube.C04.merge_equiv_proportions_cols",
    "CrCube.C04.merge_equiv_rows_catXmr",
    "CrCube.C04.merge_equiv_cols_mrXcat",
    "CrCube.C04.merge_equiv_inter_count",
    "CrCube.C04.merged_count_respondents",
    "CrCube.C04.merge_equiv_respondents",
    "CrCube.C04.resolved_wellformed",
    "CrCube.C04.no_subtrahends_iff",
    "CrCube.C04.merge_equiv_proportions_catdate_counterexample",
]
RULE = ("random designs: rows/cols in {cat, cat_date, ca(items x cats), mr}, optional cat table dimension, "
        "missing categories anywhere; 0-3 insertions per cat-like dimension (sums, differences, 1-1 and multi-term "
        "differences incl. first-element subtrahend, pure-negative, overlapping, duplicate, stale / missing / "
        "string-spelt ids, gauntlet rejects), view-level and/or transform-level (incl. an empty transform list and "
        "insertions on array dimensions, which must be ignored); random weighted surveys; valid-count and "
        "mean/stddev/median/sum measures; strands. Exhaustive scope: all lists of <=2 insertions over n<=4 categories "
        "(ids 1..n + one stale id, addend/subtrahend subsets of size <=2) applied to rows AND columns of an n x n "
        "table: complete in the thorough tier (~33 000 cases), all single insertions + a sample of the pairs in the "
        "quick tier. Non-trivial = at least one surviving insertion with a non-zero inserted value; distinct = (kinds, "
        "subtotal idx lists, counts) key")
ASSUMPTIONS = [
    "Spec.cubeOf is the back end's tabulation (C01)",
    "merge equivalence is demanded on every cell of a subtotal without subtrahends EXCEPT cells that also lie in a "
    "difference of a categorical-date dimension (reported under locus *.intersection.catdate-diff, finding F12)",
    "zscores / pvals of the merge oracle compared only when both tables have rank >= 2 (the library's global defect test)",
    "N1: 'NaN in every proportion' of a multi-term categorical-date difference = row and column proportions of a "
    "slice (base cells of the crossing dimension), table proportions of a strand",
    "table bases at difference x difference intersections are not required to be NaN (they do not derive from the count)",
    "strand counts of a difference under valid counts are not required to be NaN (the rule is read on slices)",
]
TRUSTED_EXTRA = ["harness/props/_subtotals.py: merged-survey construction (recode + re-tabulate)"]
EXHAUSTIVE = True

SLICE_KINDS = [("cat", "cat"), ("cat", "cat"), ("cat", "cat_date"), ("cat_date", "cat"), ("cat_date", "cat_date"),
               ("cat", "mr"), ("mr", "cat"), ("cat_date", "mr"), ("mr", "cat_date"), ("ca",), ("cat", "cat"),
               ("cat", "ca_items"), ]

MODEL_MEASURES = ["counts", "unweighted_counts", "row_weighted_bases", "row_unweighted_bases",
                  "column_weighted_bases", "column_unweighted_bases", "table_weighted_bases",
                  "table_unweighted_bases", "row_proportions", "column_proportions", "table_proportions"]
NAN_MEASURES = ["means", "stddev", "medians", "column_index"]

# measures compared by the merge oracle (matrix-valued)
MERGE_MATRIX = ["counts", "unweighted_counts", "row_weighted_bases", "row_unweighted_bases",
                "column_weighted_bases", "column_unweighted_bases", "table_weighted_bases",
                "table_unweighted_bases", "row_proportions", "column_proportions", "table_proportions",
                "row_percentages", "column_percentages", "table_percentages",
                "row_proportion_variances", "column_proportion_variances", "table_proportion_variances",
                "row_std_dev", "column_std_dev", "table_std_dev",
                "row_std_err", "column_std_err", "table_std_err",
                "row_proportions_moe", "column_proportions_moe", "table_proportions_moe",
                "population_proportions", "population_counts", "population_std_err", "population_counts_moe",
                "sums", "row_share_sum", "column_share_sum", "total_share_sum"]
MERGE_MATRIX_RANK = ["zscores", "pvals"]
MERGE_ROW_MARGINALS = ["rows_base", "rows_margin", "rows_margin_proportion", "rows_scale_mean",
                       "rows_scale_mean_stddev", "rows_scale_mean_stderr", "rows_scale_median"]
MERGE_COL_MARGINALS = ["columns_base", "columns_margin", "columns_margin_proportion", "columns_scale_mean",
                       "columns_scale_mean_stddev", "columns_scale_mean_stderr", "columns_scale_median"]


# ---------------------------------------------------------------------------------------------
# generation


def _rand_val(rng, special=0.08):
    r = rng.random()
    if r < special / 2:
        return "nan"
    if r < special * 0.75:
        return "inf"
    if r < special:
        return "-inf"
    return gen.frac_str(Fraction(rng.randint(-6, 12), rng.choice([1, 1, 1, 2, 4])))


def _rand_mat(rng, nr, nc, special=0.08):
    return [[_rand_val(rng, special) for _ in range(nc)] for _ in range(nr)]


def _mk_vars(rng, kinds, table):
    vars_ = []
    if table:
        vars_.append(gen.gen_var(rng, "cat", "t", n=rng.randint(1, 2), allow_missing=rng.random() < 0.5))
    for i, k in enumerate(kinds):
        alias = "v%d" % i
        if k == "ca":
            vars_.append(gen.gen_var(rng, "ca", alias, n=rng.randint(1, 3), ncat=rng.randint(2, 4)))
        elif k == "mr":
            vars_.append(gen.gen_var(rng, "mr", alias, n=rng.randint(1, 3)))
        else:
            vars_.append(gen.gen_var(rng, k, alias, n=rng.randint(1, 5), numeric="some"))
    return vars_


def _ins_for(rng, var, level=None):
    """{'view': [...]|None, 'transform': [...]|None}"""
    level = level or rng.choice(["view", "transform", "transform", "both", "none", "empty_transform"])
    out = {"view": None, "transform": None}
    if level in ("view", "both", "empty_transform"):
        out["view"] = S.gen_insertions(rng, var)
    if level in ("transform", "both"):
        out["transform"] = S.gen_insertions(rng, var)
    if level == "empty_transform":
        out["transform"] = []          # the key is present: replaces the view-level insertions by nothing
    return out


def _extras(rng, vars_, survey):
    """extra measures in raw-cube coordinates (lists of frac strings / None)"""
    n = 1
    for s in gen.raw_shape(vars_):
        n *= s
    ex = {}
    for name in ("mean", "stddev", "median"):
        if rng.random() < 0.35:
            ex[name] = [None if rng.random() < 0.1 else gen.frac_str(Fraction(rng.randint(0, 20), 2)) for _ in range(n)]
    sums = None
    if rng.random() < 0.3:
        sums = [None if rng.random() < 0.08 else gen.frac_str(Fraction(rng.randint(-4, 30), rng.choice([1, 1, 2])))
                for _ in range(n)]
    return ex, sums


def gen_slice_case(rng, kinds=None, table=None, small=False):
    kinds = kinds or rng.choice(SLICE_KINDS)
    if kinds == ("cat", "ca_items"):
        kinds = ("cat", "mr") if rng.random() < 0.5 else ("cat", "cat")
    table = (rng.random() < 0.15 and "ca" not in kinds) if table is None else table
    vars_ = _mk_vars(rng, kinds, table)
    weighted = rng.random() < 0.65
    survey = gen.gen_survey(rng, vars_, n_resp=rng.randint(0, 12) if small else None, weighted=weighted)
    dv = S.dim_vars(vars_)
    (rv, rrole), (cv, crole) = dv[-2], dv[-1]
    def arr_ins(v):
        # a well-formed subtotal dict on an MR / CA-items dimension must be IGNORED (array dims have no subtotals)
        if rng.random() < 0.25:
            ids = [it["id"] for it in v.items]
            return {"view": None, "transform": [{"function": "subtotal", "args": rng.sample(ids, min(len(ids), 2)),
                                                 "anchor": "top", "name": "arr-sub", "id": 1}]}
        return {"view": None, "transform": None}
    ins = {"rows": _ins_for(rng, rv) if rrole == "cat" else arr_ins(rv),
           "cols": _ins_for(rng, cv) if crole == "cat" else arr_ins(cv)}
    valid = rng.choice(["none", "none", "none", "both", "unweighted"])
    subset = [i for i in range(len(survey)) if rng.random() < 0.7] if valid != "none" else []
    ex, sums = _extras(rng, vars_, survey)
    nr = len(S.valid_ids(rv)) if rrole == "cat" else len(rv.items)
    nc = len(S.valid_ids(cv)) if crole == "cat" else len(cv.items)
    blk = {"base": _rand_mat(rng, nr, nc), "counts": _rand_mat(rng, nr, nc, 0.03),
           "dcn": rng.random() < 0.5, "drn": rng.random() < 0.5,
           "defCols": _rand_mat(rng, nr, 3, 0.05), "defRows": _rand_mat(rng, 3, nc, 0.05)}
    nparts = 1
    if len(dv) >= 3:
        t = vars_[0]
        nparts = len(t.valid_cat_pos)
    return {"mode": "slice", "vars": [v.to_json() for v in vars_], "survey": gen.survey_to_json(survey),
            "weighted": weighted, "ins": ins, "valid": valid, "valid_subset": subset, "extras": ex, "sums": sums,
            "population": rng.choice([None, 1000, 12345]), "blk": blk,
            "k": rng.randrange(nparts) if nparts else 0}


def gen_strand_case(rng):
    kind = rng.choice(["cat", "cat", "cat_date", "cat_date", "mr"])
    vars_ = _mk_vars(rng, (kind,), False)
    weighted = rng.random() < 0.65
    survey = gen.gen_survey(rng, vars_, weighted=weighted)
    v = vars_[0]
    ins = {"rows": _ins_for(rng, v) if kind != "mr" else {"view": None, "transform": None}}
    valid = rng.choice(["none", "none", "both"])
    subset = [i for i in range(len(survey)) if rng.random() < 0.7] if valid != "none" else []
    ex, sums = _extras(rng, vars_, survey)
    n = len(S.valid_ids(v)) if kind != "mr" else len(v.items)
    blk = {"base": [_rand_val(rng) for _ in range(n)], "counts": [_rand_val(rng, 0.03) for _ in range(n)],
           "defaults": [_rand_val(rng, 0.05) for _ in range(3)]}
    return {"mode": "strand", "vars": [v.to_json() for v in vars_], "survey": gen.survey_to_json(survey),
            "weighted": weighted, "ins": ins, "valid": valid, "valid_subset": subset, "extras": ex, "sums": sums,
            "population": None, "blk": blk, "k": 0}


def _exhaustive_cases(rng, quick):
    """ALL insertion lists of <= 2 subtotals over n <= 4 categories (ids 1..n plus the stale id 99), every addend /
    subtrahend subset of size <= 2 (not both of size 2), the SAME list applied to the rows and to the columns of one
    fixed n x n survey (so every inserted row, inserted column and every pair of them as an intersection occurs).
    thorough tier: everything (about 33 000 cases); quick tier: all single insertions and a deterministic sample of
    the pairs (the evidence then says exhaustive = false)."""
    cases = []
    complete = True
    for n in (2, 3, 4):
        rv = gen.Var("cat", "v0", cats=[{"id": i + 1, "missing": False, "name": "r%d" % i, "numeric_value": i}
                                         for i in range(n)])
        cv = gen.Var("cat_date" if n == 3 else "cat", "v1",
                     cats=[{"id": i + 1, "missing": False, "name": "c%d" % i, "numeric_value": None}
                           for i in range(n)])
        r2 = __import__("random").Random(n)
        survey = gen.gen_survey(r2, [rv, cv], n_resp=14, weighted=True, skew=False)
        ids = list(range(1, n + 1)) + [99]            # 99 is stale
        subsets = []
        for k in range(0, 3):
            subsets.extend(itertools.combinations(ids, k))
        singles = []
        for pos in subsets:
            for neg in subsets:
                if len(neg) > 1 and len(pos) > 1:
                    continue
                if not pos and not neg:
                    continue
                singles.append((list(pos), list(neg)))

        def mk(pos, neg, i):
            d = {"function": "subtotal", "name": "x%d" % i, "anchor": "bottom", "args": pos, "id": i + 1}
            if neg:
                d["kwargs"] = {"negative": neg}
            return d
        lists = [[mk(p, ng, 0)] for p, ng in singles]
        pairs = [(a, b) for a in singles for b in singles]
        step = 1
        if quick:
            step = {2: 5, 3: 41, 4: 173}[n]
            complete = False
        for a, b in pairs[::step]:
            lists.append([mk(a[0], a[1], 0), mk(b[0], b[1], 1)])
        for lst in lists:
            ins = {"rows": {"view": None, "transform": lst}, "cols": {"view": None, "transform": lst}}
            cases.append({"mode": "slice", "vars": [rv.to_json(), cv.to_json()],
                          "survey": gen.survey_to_json(survey), "weighted": True, "ins": ins, "valid": "none",
                          "valid_subset": [], "extras": {}, "sums": None, "population": None, "blk": None, "k": 0,
                          "exh": True})
    return cases, complete


def generate(ctx):
    rng = ctx.rng
    cases = []
    for _ in range(ctx.n(320, 3000)):
        cases.append(gen_slice_case(rng))
    for _ in range(ctx.n(160, 1200)):
        cases.append(gen_strand_case(rng))
    ex, complete = _exhaustive_cases(rng, ctx.quick)
    cases.extend(ex)
    ctx.count("exhaustive_cases", len(ex))
    if complete:
        ctx.count("exhaustive_done", 1)
    return cases


# ---------------------------------------------------------------------------------------------
# shared construction


def _load(case):
    vars_ = [gen.Var.from_json(d) for d in case["vars"]]
    survey = gen.survey_from_json(case["survey"])
    return vars_, survey


def _frac_list(l):
    return None if l is None else [None if x is None else Fraction(x) for x in l]


def _count_arrays(case, vars_, survey):
    """(weighted flat, unweighted flat, wvalid, uvalid) AS THE LIBRARY WILL USE THEM (valid counts win)"""
    w = gen.tabulate(vars_, survey, case["weighted"])
    u = gen.tabulate(vars_, survey, False)
    vw = vu = None
    if case["valid"] != "none":
        sub = [survey[i] for i in case["valid_subset"] if i < len(survey)]
        vu = gen.tabulate(vars_, sub, False)
        if case["valid"] == "both":
            vw = gen.tabulate(vars_, sub, case["weighted"])
    return w, u, vw, vu


def _has(arr):
    """the library treats an empty / all-falsy... no: `if valid_counts` on a non-empty list is truthy"""
    return arr is not None and len(arr) > 0


def build_response(case, vars_, survey, arrays=None, extras=None, sums=None):
    w, u, vw, vu = arrays if arrays is not None else _count_arrays(case, vars_, survey)
    extra = {}
    ex = case["extras"] if extras is None else extras
    for name, data in ex.items():
        extra[name] = [S.flat_num(x) for x in _frac_list(data)]
    sm = case["sums"] if sums is None else sums
    if sm is not None:
        extra["sum"] = [S.flat_num(x) for x in _frac_list(sm)]
    if _has(vu):
        extra["valid_count_unweighted"] = [gen.num(x) for x in vu]
    if _has(vw):
        extra["valid_count_weighted"] = [gen.num(x) for x in vw]
    resp = gen.cube_response(vars_, survey, case["weighted"], extra_measures=extra)
    if not case["weighted"]:
        pass
    return resp


def build_cube(case, vars_, survey, ins, arrays=None, extras=None, sums=None):
    from cr.cube.cube import Cube
    resp = build_response(case, vars_, survey, arrays, extras, sums)
    dv = S.dim_vars(vars_)
    tr = {}
    if case["mode"] == "slice":
        slots = (("rows", dv[-2], "rows_dimension"), ("cols", dv[-1], "columns_dimension"))
    else:
        slots = (("rows", dv[-1], "rows_dimension"),)
    for key, (var, role), tkey in slots:
        spec = ins.get(key) or {}
        if role != "cat":
            if spec.get("transform") is not None:
                tr[tkey] = {"insertions": copy.deepcopy(spec["transform"])}
            continue
        if spec.get("view") is not None:
            S.attach_view(resp, vars_, vars_.index(var), role, spec["view"])
        if spec.get("transform") is not None:
            tr[tkey] = {"insertions": copy.deepcopy(spec["transform"])}
    kw = {}
    if case.get("population"):
        kw["population"] = case["population"]
    return Cube(resp, transforms=tr, **kw)


def _lean_dims(case, vars_):
    dv = S.dim_vars(vars_)
    out = {}
    slots = (("rows", dv[-2]), ("cols", dv[-1])) if case["mode"] == "slice" else (("rows", dv[-1]),)
    for key, (var, role) in slots:
        spec = case["ins"].get(key) or {}
        out[key] = S.lean_dim(var if role == "cat" else None, spec.get("view"), spec.get("transform"))
    return out


def _plain_catxcat(vars_):
    return len(vars_) == 2 and all(not v.is_array for v in vars_)


def lean_ops(case):
    vars_, survey = _load(case)
    w, u, vw, vu = _count_arrays(case, vars_, survey)
    wd = vw if _has(vw) else (vu if _has(vu) else w)      # Cube.counts: weighted valid > unweighted valid > counts
    ud = vu if _has(vu) else u
    dims = _lean_dims(case, vars_)
    lv = [v.lean() for v in vars_]
    sums = case["sums"]
    sums_l = None if sums is None else [S.measure_str(None if x is None else Fraction(x)) for x in sums]
    ops = []
    if case["mode"] == "slice":
        ops.append({"op": "slice_sub", "vars": lv, "wdata": [gen.frac_str(x) for x in wd],
                    "udata": [gen.frac_str(x) for x in ud], "k": case["k"], "rows": dims["rows"],
                    "cols": dims["cols"], "wvalid": _has(vw), "uvalid": _has(vu), "sums": sums_l})
        b = case.get("blk")
        if b:
            nr = len(b["base"])
            nc = len(b["base"][0]) if nr else len(b["defRows"][0]) if b["defRows"] else 0
            for cls in ("sum", "pos", "neg", "nan", "overlap"):
                ops.append({"op": "blocks", "cls": cls, "base": b["base"], "nr": nr, "nc": nc,
                            "rows": dims["rows"], "cols": dims["cols"], "dcn": b["dcn"], "drn": b["drn"]})
            ops.append({"op": "wavediff", "bases": b["base"], "counts": b["counts"], "nr": nr, "nc": nc,
                        "defCols": b["defCols"], "defRows": b["defRows"], "rows": dims["rows"],
                        "cols": dims["cols"]})
        if _plain_catxcat(vars_):
            ops.append({"op": "merge_cube", "vars": lv, "wdata": [gen.frac_str(x) for x in wd],
                        "rows": dims["rows"], "cols": dims["cols"]})
    else:
        ops.append({"op": "strand_sub", "vars": lv, "wdata": [gen.frac_str(x) for x in wd],
                    "udata": [gen.frac_str(x) for x in ud], "rows": dims["rows"], "sums": sums_l})
        b = case.get("blk")
        if b:
            for cls in ("sum", "pos", "neg", "nan"):
                ops.append({"op": "stripe_blocks", "cls": cls, "base": b["base"], "rows": dims["rows"]})
            ops.append({"op": "stripe_blocks", "cls": "wave", "base": b["base"], "counts": b["counts"],
                        "defaults": b["defaults"], "rows": dims["rows"]})
    return ops


# ---------------------------------------------------------------------------------------------
# evaluation helpers


def _np_mat(m):
    import numpy as np
    return np.array(common.model_to_float(m), dtype=float).reshape(len(m), len(m[0]) if m else 0)


def _finding(findings, kind, locus, detail):
    findings.append({"kind": kind, "locus": locus, "detail": detail[:700]})


def _impl_subs(dim):
    return [[[int(i) for i in s.addend_idxs], [int(i) for i in s.subtrahend_idxs]] for s in dim.subtotals]


def _cmp_blocks(findings, locus, impl_blocks, model_blocks):
    names = (("body", 0, 0), ("ins_cols", 0, 1), ("ins_rows", 1, 0), ("inter", 1, 1))
    for nm, a, b in names:
        impl = common.impl_canon(impl_blocks[a][b])
        model = common.model_to_float(model_blocks[nm])
        # empty blocks: numpy keeps a (n, 0) shape, the model an n-list of [] / [] : compare sizes loosely
        flat_i = [x for row in impl for x in (row if isinstance(row, list) else [row])] if isinstance(impl, list) else [impl]
        flat_m = [x for row in model for x in row]
        if len(flat_i) != len(flat_m):
            _finding(findings, "model", "%s.%s" % (locus, nm), "size %d != %d" % (len(flat_i), len(flat_m)))
            continue
        ok, where = common.deep_close(flat_i, flat_m)
        if not ok:
            _finding(findings, "model", "%s.%s" % (locus, nm), "impl vs model%s impl=%r model=%r" % (where, impl, model))


def _signed(order):
    return [int(x) for x in order]


class _SliceView:
    """an assembled slice with the lookup from display position to (block, index)"""

    def __init__(self, sl):
        self.sl = sl
        self.ro = _signed(sl.row_order())
        self.co = _signed(sl.column_order())
        dims = sl._dimensions
        self.nrs = len(dims[0].subtotals)
        self.ncs = len(dims[1].subtotals)
        self.dims = dims

    def row_pos(self, is_sub, idx):
        target = idx - self.nrs if is_sub else idx
        return self.ro.index(target) if target in self.ro else None

    def col_pos(self, is_sub, idx):
        target = idx - self.ncs if is_sub else idx
        return self.co.index(target) if target in self.co else None

    def get(self, name, *args):
        def thunk():
            a = getattr(self.sl, name)
            return a(*args) if callable(a) and args else a
        return common.call_impl(thunk)


# ---------------------------------------------------------------------------------------------
# evaluate: slices


def _eval_slice(case, louts, ctx):
    import numpy as np
    vars_, survey = _load(case)
    findings = []
    cube = build_cube(case, vars_, survey, case["ins"])
    part = common.call_impl(lambda: len(cube.partitions))
    if isinstance(part, dict):
        _finding(findings, "model", "api.partitions", repr(part))
        return findings, None
    sl = cube.partitions[case["k"]]
    try:
        V = _SliceView(sl)
    except Exception as e:  # noqa
        _finding(findings, "model", "api.slice-construction", "%s: %s" % (type(e).__name__, e))
        return findings, None
    L = louts[0]
    dv = S.dim_vars(vars_)
    kinds = "x".join(v.kind + ("" if r != "items" else "_items") for v, r in dv)
    ctx.count("kinds:" + kinds)

    # ---- seam dim ------------------------------------------------------------------------
    isubs_r, isubs_c = _impl_subs(V.dims[0]), _impl_subs(V.dims[1])
    if isubs_r != L["row_subtotals"]:
        _finding(findings, "model", "seam.dim.row_subtotals", "impl %r model %r" % (isubs_r, L["row_subtotals"]))
    if isubs_c != L["col_subtotals"]:
        _finding(findings, "model", "seam.dim.col_subtotals", "impl %r model %r" % (isubs_c, L["col_subtotals"]))
    nrs, ncs = len(L["row_subtotals"]), len(L["col_subtotals"])
    if V.nrs != nrs or V.ncs != ncs:
        _finding(findings, "spec", "dim.surviving-insertions",
                 "number of inserted rows/cols %r, statement (gauntlet) %r" % ((V.nrs, V.ncs), (nrs, ncs)))
        return findings, None
    ctx.count("n_subtotals:%d" % (nrs + ncs))

    # ---- seam blk ------------------------------------------------------------------------
    b = case.get("blk")
    if b:
        from cr.cube.matrix import subtotals as ST
        base = _np_mat(b["base"]) if b["base"] and b["base"][0] else np.zeros((len(b["base"]), 0))
        if base.shape == (len(V.dims[0].valid_elements), len(V.dims[1].valid_elements)) and base.size > 0:
            calls = (("sum", lambda: ST.SumSubtotals.blocks(base, V.dims, b["dcn"], b["drn"])),
                     ("pos", lambda: ST.PositiveTermSubtotals.blocks(base, V.dims)),
                     ("neg", lambda: ST.NegativeTermSubtotals.blocks(base, V.dims)),
                     ("nan", lambda: ST.NanSubtotals.blocks(base, V.dims)),
                     ("overlap", lambda: ST.OverlapSubtotals.blocks(base, V.dims, b["dcn"], b["drn"])))
            for n_, (cls, fn) in enumerate(calls):
                with np.errstate(all="ignore"):
                    try:
                        import warnings
                        with warnings.catch_warnings():
                            warnings.simplefilter("ignore")
                            ib = fn()
                    except Exception as e:  # noqa
                        _finding(findings, "model", "seam.blk.%s" % cls, "raises %s %s" % (type(e).__name__, e))
                        continue
                _cmp_blocks(findings, "seam.blk.%s" % cls, ib, louts[1 + n_]["blocks"])
                if cls == "sum":
                    # the Lean theorem intersection_symmetric, observed
                    if louts[1 + n_]["blocks"]["inter"] != louts[1 + n_]["inter_cols_first"]:
                        raise common.HarnessFault("Lean: intersection not symmetric on %r" % case)
            counts = _np_mat(b["counts"])
            dcols = _np_mat(b["defCols"])[:, :ncs] if ncs else np.zeros((base.shape[0], 0))
            drows = _np_mat(b["defRows"])[:nrs, :] if nrs else np.zeros((0, base.shape[1]))
            W = louts[6]
            import warnings
            with warnings.catch_warnings():
                warnings.simplefilter("ignore")
                with np.errstate(all="ignore"):
                    try:
                        wc = ST.WaveDiffSubtotal.subtotal_columns(base, counts, dcols, V.dims)
                        wr = ST.WaveDiffSubtotal.subtotal_rows(base, counts, drows, V.dims)
                    except Exception as e:  # noqa
                        wc = wr = None
                        _finding(findings, "model", "seam.blk.wavediff", "raises %s %s" % (type(e).__name__, e))
            if wc is not None:
                for nm, impl, model in (("cols", wc, W["cols"]), ("rows", wr, W["rows"])):
                    fi = [x for row in common.impl_canon(impl) for x in row]
                    fm = [x for row in common.model_to_float(model) for x in row]
                    ok, where = common.deep_close(fi, fm)
                    if not ok:
                        # is it the statement's NaN rule for multi-term categorical-date differences?
                        _finding(findings, "model", "seam.blk.wavediff.%s" % nm,
                                 "impl vs model%s impl=%r model=%r" % (where, common.impl_canon(impl), common.model_to_float(model)))

    # ---- API vs model, block by block ----------------------------------------------------
    key_vals = []
    measures = list(MODEL_MEASURES)
    if case["sums"] is not None:
        measures += ["sums"]
    impl_cache = {}
    for name in measures:
        impl = V.get(name)
        impl_cache[name] = impl
        model = common.model_to_float(S.assemble_model(L[name], V.ro, V.co, nrs, ncs))
        d = S.first_diff(impl, model, V.ro, V.co, nrs, ncs)
        if d is not None:
            _finding(findings, "model", "seam.msr.%s.%s" % (name, d[0]),
                     "display cell (%d,%d): impl %r model %r" % (d[1], d[2], d[3], d[4]))

    # ---- spec (a): counts as signed merges by ids ------------------------------------------
    row_diff = L["spec_row_is_diff"]
    col_diff = L["spec_col_is_diff"]
    if L["spec_inter_rows_first"] != L["spec_inter_cols_first"]:
        # symmetric for every non diff-x-diff pair by theorem; diff x diff is NaN by statement anyway
        for k in range(nrs):
            for l in range(ncs):
                if not (row_diff[k] and col_diff[l]) and L["spec_inter_rows_first"][k][l] != L["spec_inter_cols_first"][k][l]:
                    raise common.HarnessFault("Lean Spec: signed merge not symmetric on %r" % case)
    wvalid = case["valid"] == "both" and _has(_count_arrays(case, vars_, survey)[2])
    uvalid = case["valid"] != "none" and _has(_count_arrays(case, vars_, survey)[3])
    nan = float("nan")
    for name, pre, dn in (("counts", "spec_", wvalid), ("unweighted_counts", "spec_u_", uvalid)):
        impl = impl_cache[name]
        if not isinstance(impl, list):
            continue
        ir = common.model_to_float(L[pre + "ins_rows"])
        ic = common.model_to_float(L[pre + "ins_cols"])
        it = common.model_to_float(L["spec_inter_rows_first" if pre == "spec_" else "spec_u_inter"])
        for i, rsig in enumerate(V.ro):
            rs, ri = S.cell_of(rsig, nrs)
            for j, csig in enumerate(V.co):
                cs, ci = S.cell_of(csig, ncs)
                if not rs and not cs:
                    continue
                if rs and cs:
                    want = nan if (row_diff[ri] and col_diff[ci]) or (dn and (row_diff[ri] or col_diff[ci])) else it[ri][ci]
                elif rs:
                    want = nan if (dn and row_diff[ri]) else ir[ri][ci]
                else:
                    want = nan if (dn and col_diff[ci]) else ic[ri][ci]
                if not common.num_close(impl[i][j], want):
                    _finding(findings, "spec", "slice.%s.%s" % (name, S.block_name(rs, cs)),
                             "display cell (%d,%d): impl %r, statement (signed merge by ids) %r" % (i, j, impl[i][j], want))
                elif isinstance(want, float) and want == want and want != 0:
                    key_vals.append(want)

    # ---- spec (b): diff idxs, NaN measures, difference rules -------------------------------
    want_dr = sorted(i for i, s in enumerate(V.ro) if s < 0 and row_diff[nrs + s])
    want_dc = sorted(j for j, s in enumerate(V.co) if s < 0 and col_diff[ncs + s])
    for nm, want in (("diff_row_idxs", want_dr), ("diff_column_idxs", want_dc)):
        got = V.get(nm)
        if not isinstance(got, list) or sorted(got) != want:
            _finding(findings, "spec", "slice.%s" % nm, "impl %r statement %r" % (got, want))
    for nm, want in (("inserted_row_idxs", [i for i, s in enumerate(V.ro) if s < 0]),
                     ("inserted_column_idxs", [j for j, s in enumerate(V.co) if s < 0])):
        got = V.get(nm)
        if not isinstance(got, list) or sorted(got) != want:
            _finding(findings, "spec", "slice.%s" % nm, "impl %r statement %r" % (got, want))
    for nm in NAN_MEASURES:
        if nm in ("means", "stddev", "medians"):
            key_ = {"means": "mean", "stddev": "stddev", "medians": "median"}[nm]
            if key_ not in case["extras"]:
                continue
        elif any(v.kind in ("ca",) for v, _ in dv[-2:]):
            continue
        impl = V.get(nm)
        if not isinstance(impl, list):
            if nrs + ncs > 0:
                _finding(findings, "model", "api.%s" % nm, repr(impl))
            continue
        for i, rsig in enumerate(V.ro):
            for j, csig in enumerate(V.co):
                if (rsig < 0 or csig < 0) and not S.is_nan(impl[i][j]):
                    _finding(findings, "spec", "slice.%s.not-nan" % nm,
                             "inserted display cell (%d,%d) = %r, statement NaN" % (i, j, impl[i][j]))
    rterms, cterms = L["spec_row_terms"], L["spec_col_terms"]
    rcd = dv[-2][0].kind == "cat_date" and dv[-2][1] == "cat"
    ccd = dv[-1][0].kind == "cat_date" and dv[-1][1] == "cat"
    body_rp = common.model_to_float(L["row_proportions"]["body"])
    body_cp = common.model_to_float(L["column_proportions"]["body"])
    rp, cp, tp = impl_cache["row_proportions"], impl_cache["column_proportions"], impl_cache["table_proportions"]
    rwb, rub = impl_cache["row_weighted_bases"], impl_cache["row_unweighted_bases"]
    cwb, cub = impl_cache["column_weighted_bases"], impl_cache["column_unweighted_bases"]
    mats_ok = all(isinstance(x, list) for x in (rp, cp, tp, rwb, rub, cwb, cub))
    if mats_ok:
        for i, rsig in enumerate(V.ro):
            rs, ri = S.cell_of(rsig, nrs)
            for j, csig in enumerate(V.co):
                cs, ci = S.cell_of(csig, ncs)
                rd = rs and row_diff[ri]
                cd = cs and col_diff[ci]
                if not rd and not cd:
                    continue
                # own-direction bases
                if rd:
                    for nm, m in (("row_weighted_bases", rwb), ("row_unweighted_bases", rub)):
                        if not S.is_nan(m[i][j]):
                            _finding(findings, "spec", "slice.%s.diff-not-nan" % nm,
                                     "row difference, display cell (%d,%d) = %r" % (i, j, m[i][j]))
                if cd:
                    for nm, m in (("column_weighted_bases", cwb), ("column_unweighted_bases", cub)):
                        if not S.is_nan(m[i][j]):
                            _finding(findings, "spec", "slice.%s.diff-not-nan" % nm,
                                     "column difference, display cell (%d,%d) = %r" % (i, j, m[i][j]))
                # diff x diff: every proportion NaN
                if rd and cd:
                    for nm, m in (("row_proportions", rp), ("column_proportions", cp), ("table_proportions", tp)):
                        if not S.is_nan(m[i][j]):
                            _finding(findings, "spec", "slice.%s.diffxdiff-not-nan" % nm,
                                     "display cell (%d,%d) = %r" % (i, j, m[i][j]))
                    continue
                # own-direction proportion of a difference crossing a BASE element
                if rd and not cs:
                    terms = rterms[ri]
                    if not rcd:
                        if not S.is_nan(rp[i][j]):
                            _finding(findings, "spec", "slice.row_proportions.diff-not-nan",
                                     "row difference, display cell (%d,%d) = %r" % (i, j, rp[i][j]))
                    else:
                        multi = len(terms[0]) > 1 or len(terms[1]) > 1
                        if multi:
                            for nm, m in (("row_proportions", rp), ("column_proportions", cp)):
                                if not S.is_nan(m[i][j]):
                                    _finding(findings, "spec", "slice.%s.catdate-multiterm-diff-not-nan" % nm,
                                             "row difference %r on a categorical-date dimension, display cell (%d,%d) = %r, "
                                             "statement NaN" % (terms, i, j, m[i][j]))
                        elif len(terms[0]) == 1 and len(terms[1]) == 1:
                            a, s_ = terms[0][0], terms[1][0]
                            for nm, m, body in (("row_proportions", rp, body_rp), ("column_proportions", cp, body_cp)):
                                want = body[a][ci] - body[s_][ci] if not (S.is_nan(body[a][ci]) or S.is_nan(body[s_][ci])) else nan
                                if math.isinf(body[a][ci]) and math.isinf(body[s_][ci]) and body[a][ci] == body[s_][ci]:
                                    want = nan
                                if not common.num_close(m[i][j], want):
                                    _finding(findings, "spec", "slice.%s.catdate-wave-diff" % nm,
                                             "row difference +%d -%d, display cell (%d,%d): impl %r, difference of the two "
                                             "percentages %r" % (a, s_, i, j, m[i][j], want))
                                else:
                                    ctx.count("wave_diff_checked")
                if cd and not rs:
                    terms = cterms[ci]
                    if not ccd:
                        if not S.is_nan(cp[i][j]):
                            _finding(findings, "spec", "slice.column_proportions.diff-not-nan",
                                     "column difference, display cell (%d,%d) = %r" % (i, j, cp[i][j]))
                    else:
                        multi = len(terms[0]) > 1 or len(terms[1]) > 1
                        if multi:
                            for nm, m in (("row_proportions", rp), ("column_proportions", cp)):
                                if not S.is_nan(m[i][j]):
                                    _finding(findings, "spec", "slice.%s.catdate-multiterm-diff-not-nan" % nm,
                                             "column difference %r on a categorical-date dimension, display cell (%d,%d) = %r, "
                                             "statement NaN" % (terms, i, j, m[i][j]))
                                else:
                                    ctx.count("multi_term_nan_checked")
                        elif len(terms[0]) == 1 and len(terms[1]) == 1:
                            a, s_ = terms[0][0], terms[1][0]
                            for nm, m, body in (("row_proportions", rp, body_rp), ("column_proportions", cp, body_cp)):
                                x, y = body[ri][a], body[ri][s_]
                                want = x - y if not (S.is_nan(x) or S.is_nan(y)) else nan
                                if math.isinf(x) and math.isinf(y) and x == y:
                                    want = nan
                                if not common.num_close(m[i][j], want):
                                    _finding(findings, "spec", "slice.%s.catdate-wave-diff" % nm,
                                             "column difference +%d -%d, display cell (%d,%d): impl %r, difference of the two "
                                             "percentages %r" % (a, s_, i, j, m[i][j], want))
                                else:
                                    ctx.count("wave_diff_checked")

    # ---- spec (c): merge oracle --------------------------------------------------------------
    if not findings or all(f["kind"] == "model" for f in findings):
        _merge_oracle(case, vars_, survey, V, L, findings, ctx, louts[-1] if _plain_catxcat(vars_) else None)

    key = None
    if key_vals:
        key = (kinds, repr(L["row_subtotals"]), repr(L["col_subtotals"]), tuple(sorted(set(key_vals)))[:6])
    return findings, key


def _rank_ok(sl):
    import numpy as np
    c = common.call_impl(lambda: sl._measures.weighted_counts.blocks[0][0])
    if not isinstance(c, list) or not c or not c[0]:
        return False
    a = np.array(c, dtype=float)
    if not np.all(np.isfinite(a)):
        return False
    return bool(np.linalg.matrix_rank(a) >= 2)


def _merge_oracle(case, vars_, survey, V, L, findings, ctx, MC=None):
    """for every subtotal WITHOUT subtrahends (and at least one addend): merge its addends in the data, rerun."""
    dv = S.dim_vars(vars_)
    nrs, ncs = V.nrs, V.ncs
    arrays = _count_arrays(case, vars_, survey)
    n_done = 0
    for axis, (var, role), subs in ((0, dv[-2], L["row_subtotals"]), (1, dv[-1], L["col_subtotals"])):
        if role != "cat":
            continue
        vpos = var.valid_cat_pos
        seen = set()
        for k, (adds, subsx) in enumerate(subs):
            if subsx or not adds or tuple(adds) in seen:
                continue
            if n_done >= (2 if not case.get("exh") else 1):
                return
            if case.get("exh") and len(subs) > 1:
                return
            seen.add(tuple(adds))
            n_done += 1
            ctx.count("merge_oracle_runs")
            var_idx = vars_.index(var)
            raw_add = [vpos[a] for a in adds]
            nv, recode = S.merge_var(var, raw_add)
            vars2 = list(vars_)
            vars2[var_idx] = nv
            survey2 = S.merge_survey(survey, var_idx, recode)
            ins2 = copy.deepcopy(case["ins"])
            ins2["rows" if axis == 0 else "cols"] = {"view": None, "transform": None}
            # extras / sums / valid counts merged in raw coordinates
            ex2 = {}
            for name, data in case["extras"].items():
                ex2[name] = [None if x is None else gen.frac_str(x) for x in
                             S.merge_flat(vars_, _frac_list(data), var_idx, raw_add, vars2, recode)]
            sums2 = None
            sums_clean = False
            if case["sums"] is not None:
                fl = _frac_list(case["sums"])
                m = S.merge_flat(vars_, fl, var_idx, raw_add, vars2, recode)
                sums2 = [None if x is None else gen.frac_str(x) for x in m]
                sums_clean = all(x is not None for x in fl)
            case2 = dict(case, valid_subset=case["valid_subset"])
            sub2 = None
            try:
                cube2 = build_cube(case2, vars2, survey2, ins2, arrays=None, extras=ex2, sums=sums2 if sums2 is not None else None)
                sl2 = cube2.partitions[case["k"]]
                V2 = _SliceView(sl2)
            except Exception as e:  # noqa
                _finding(findings, "model", "oracle.merge.construction", "%s: %s" % (type(e).__name__, e))
                continue
            n_valid2 = len(nv.valid_cat_pos)
            merged_idx = n_valid2 - 1
            if MC is not None:
                _check_spec_merge(findings, ctx, MC["rows" if axis == 0 else "cols"][k], V2, merged_idx)
            rank_ok = _rank_ok(V.sl) and _rank_ok(sl2)
            names = list(MERGE_MATRIX) + (MERGE_MATRIX_RANK if rank_ok else [])
            if not rank_ok:
                ctx.count("merge_oracle_rank_skipped")
            for name in names:
                if name in ("sums", "row_share_sum", "column_share_sum", "total_share_sum"):
                    if case["sums"] is None or not sums_clean:
                        continue
                if name.startswith("population") and not case.get("population"):
                    continue
                a = V.get(name)
                b = V2.get(name)
                _cmp_merged(findings, ctx, name, a, b, V, V2, axis, k, merged_idx, dv)
            # pairwise statistics (column comparisons)
            _pairwise_merged(findings, ctx, V, V2, axis, k, merged_idx, dv)
            # marginals
            for name in (MERGE_ROW_MARGINALS if axis == 0 else MERGE_COL_MARGINALS):
                a = V.get(name)
                b = V2.get(name)
                if isinstance(a, dict) and isinstance(b, dict):
                    continue
                if not isinstance(a, list) or not isinstance(b, list):
                    if a is None and b is None:
                        continue
                    _finding(findings, "spec", "merge.%s" % name, "subtotal table %r merged table %r" % (a, b))
                    continue
                if a and isinstance(a[0], list):
                    _cmp_merged(findings, ctx, name, a, b, V, V2, axis, k, merged_idx, dv)
                    continue
                pa = V.row_pos(True, k) if axis == 0 else V.col_pos(True, k)
                pb = V2.row_pos(False, merged_idx) if axis == 0 else V2.col_pos(False, merged_idx)
                if pa is None or pb is None:
                    continue
                if not common.num_close(a[pa], b[pb]):
                    _finding(findings, "spec", "merge.%s" % name,
                             "%s subtotal %d (addends %r): subtotal shows %r, merged category shows %r"
                             % ("row" if axis == 0 else "column", k, subs[k][0], a[pa], b[pb]))


def _check_spec_merge(findings, ctx, spec, V2, merged_idx):
    """the Lean Spec's merged table (`mergeAxis`, right-hand side of the merge theorems) against the library's
    BODY values on the merged survey: ties the theorems' merged table to 'merging the addends in the data'."""
    if spec is None:
        return
    if spec["merged_pos"] != merged_idx:
        raise common.HarnessFault("Spec mergedPos %r != harness merged index %r" % (spec["merged_pos"], merged_idx))
    for name, key in (("counts", "counts"), ("row_weighted_bases", "row_bases"),
                      ("column_weighted_bases", "column_bases"), ("table_weighted_bases", "table_bases")):
        impl = V2.get(name)
        if not isinstance(impl, list):
            _finding(findings, "model", "oracle.spec-merge.%s" % name, repr(impl))
            continue
        want = common.model_to_float(spec[key])
        got = []
        for r in range(len(want)):
            pr = V2.row_pos(False, r)
            row = []
            for c_ in range(len(want[0]) if want else 0):
                pc = V2.col_pos(False, c_)
                row.append(impl[pr][pc] if pr is not None and pc is not None else None)
            got.append(row)
        ok, where = common.deep_close(got, want)
        if not ok:
            _finding(findings, "model", "oracle.spec-merge.%s" % name,
                     "library on the merged survey vs Lean Spec mergeAxis%s: %r vs %r" % (where, got, want))
        else:
            ctx.count("spec_merge_tables_equal")


def _cross_positions(V, V2, axis):
    """pairs (pos in V, pos in V2, signed idx) along the NON-merged direction (same elements both sides)"""
    oa = V.co if axis == 0 else V.ro
    ob = V2.co if axis == 0 else V2.ro
    out = []
    for p, s in enumerate(oa):
        if s in ob:
            out.append((p, ob.index(s), s))
    return out


def _merge_locus(name, V, axis, s, dv):
    """locus of a merge-oracle mismatch of measure `name` for a subtotal on `axis` at crossing element `s`"""
    other_cd = (dv[-1] if axis == 0 else dv[-2])
    other_is_cd = other_cd[0].kind == "cat_date" and other_cd[1] == "cat"
    other_dim = V.dims[1 if axis == 0 else 0]
    other_n = V.ncs if axis == 0 else V.nrs
    locus = "merge.%s" % name
    if name.endswith("share_sum"):
        locus = "slice.%s.%s" % (name, S.block_name(axis == 0 or s < 0, axis == 1 or s < 0))
    if name.endswith("margin_proportion") and other_cd[1] in ("mr", "items"):
        locus = "slice.%s.array-crossing" % name
    if s < 0 and other_is_cd and other_dim.subtotals[other_n + s].is_difference:
        locus = "slice.%s.intersection.catdate-diff" % name
    return locus


def _cmp_merged(findings, ctx, name, a, b, V, V2, axis, k, merged_idx, dv):
    if isinstance(a, dict) and isinstance(b, dict):
        return      # both raise (measure undefined for this cube)
    if not isinstance(a, list) or not isinstance(b, list):
        _finding(findings, "spec", "merge.%s" % name, "subtotal table %r, merged table %r" % (a, b))
        return
    pa = V.row_pos(True, k) if axis == 0 else V.col_pos(True, k)
    pb = V2.row_pos(False, merged_idx) if axis == 0 else V2.col_pos(False, merged_idx)
    if pa is None or pb is None:
        return
    L_other_diff = None
    other_cd = (dv[-1] if axis == 0 else dv[-2])
    other_is_cd = other_cd[0].kind == "cat_date" and other_cd[1] == "cat"
    other_dim = V.dims[1 if axis == 0 else 0]
    other_n = V.ncs if axis == 0 else V.nrs
    for qa, qb, s in _cross_positions(V, V2, axis):
        x = a[pa][qa] if axis == 0 else a[qa][pa]
        y = b[pb][qb] if axis == 0 else b[qb][pb]
        if common.num_close(x, y):
            ctx.count("merge_cells_equal")
            continue
        locus = _merge_locus(name, V, axis, s, dv)
        _finding(findings, "spec", locus,
                 "%s subtotal %d x crossing element %d: subtotal shows %r, merged category shows %r"
                 % ("row" if axis == 0 else "column", k, s, x, y))


def _pairwise_merged(findings, ctx, V, V2, axis, k, merged_idx, dv):
    """pairwise column t-stats / p-values: (axis 0) the subtotal row of every comparison; (axis 1) the subtotal
    column as compared column and as selected column."""
    if any(r != "cat" and v.kind != "mr" for v, r in dv[-2:]):
        pass
    ncols_a = len(V.co)
    for sel_a in range(ncols_a):
        s = V.co[sel_a]
        if axis == 0:
            if s not in V2.co:
                continue
            sel_b = V2.co.index(s)
        else:
            if s == k - V.ncs:
                sel_b = V2.col_pos(False, merged_idx)
            elif s in V2.co and s >= 0 and False:
                sel_b = V2.co.index(s)
            else:
                continue
            if sel_b is None:
                continue
        for name in ("pairwise_significance_t_stats", "pairwise_significance_p_vals"):
            a = V.get(name, sel_a)
            b = V2.get(name, sel_b)
            if isinstance(a, dict) and isinstance(b, dict):
                continue
            if not isinstance(a, list) or not isinstance(b, list):
                _finding(findings, "spec", "merge.%s" % name, "subtotal table %r, merged table %r" % (a, b))
                continue
            if axis == 0:
                _cmp_merged(findings, ctx, name, a, b, V, V2, 0, k, merged_idx, dv)
            else:
                # selected = the subtotal column / merged column: compare all common rows of the selected column
                # and of every other common column
                for qa, qb, sr in _cross_positions(V, V2, 1):
                    x, y = a[qa][sel_a], b[qb][sel_b]
                    if not common.num_close(x, y):
                        _finding(findings, "spec", _merge_locus(name, V, 1, sr, dv),
                                 "selected column subtotal %d, row %d: %r vs merged %r" % (k, sr, x, y))


# ---------------------------------------------------------------------------------------------
# evaluate: strands


def _eval_strand(case, louts, ctx):
    import numpy as np
    vars_, survey = _load(case)
    findings = []
    cube = build_cube(case, vars_, survey, case["ins"])
    st = cube.partitions[0]
    L = louts[0]
    v = vars_[0]
    ctx.count("kinds:strand-" + v.kind)
    try:
        ro = _signed(st.row_order())
        dim = st._rows_dimension
        isubs = _impl_subs(dim)
    except Exception as e:  # noqa
        _finding(findings, "model", "api.strand-construction", "%s: %s" % (type(e).__name__, e))
        return findings, None
    if isubs != L["subtotals"]:
        _finding(findings, "model", "seam.dim.strand_subtotals", "impl %r model %r" % (isubs, L["subtotals"]))
    ns = len(L["subtotals"])
    if len(isubs) != ns:
        _finding(findings, "spec", "dim.surviving-insertions", "strand: %d inserted rows, statement %d" % (len(isubs), ns))
        return findings, None
    n = len(S.valid_ids(v)) if v.kind != "mr" else len(v.items)

    def get(name):
        return common.call_impl(lambda: getattr(st, name))

    def assemble(blk):
        base, subs = common.model_to_float(blk["base"]), common.model_to_float(blk["subs"])
        return [(subs[ns + s] if s < 0 else base[s]) for s in ro]

    # seam blk (stripe)
    b = case.get("blk")
    if b and len(b["base"]) == n and n > 0:
        from cr.cube.stripe import insertion as SI
        base = np.array(common.model_to_float(b["base"]), dtype=float)
        counts = np.array(common.model_to_float(b["counts"]), dtype=float)
        defaults = np.array(common.model_to_float(b["defaults"]), dtype=float)[:ns]
        import warnings
        calls = (("sum", lambda: SI.SumSubtotals.subtotal_values(base, dim)),
                 ("pos", lambda: SI.PositiveTermSubtotals.subtotal_values(base, dim)),
                 ("neg", lambda: SI.NegativeTermSubtotals.subtotal_values(base, dim)),
                 ("nan", lambda: SI.NanSubtotals.subtotal_values(base, dim)),
                 ("wave", lambda: SI.WaveDiffSubtotals.subtotal_values(base, counts, defaults, dim)))
        for i, (cls, fn) in enumerate(calls):
            with warnings.catch_warnings():
                warnings.simplefilter("ignore")
                with np.errstate(all="ignore"):
                    try:
                        iv = common.impl_canon(fn())
                    except Exception as e:  # noqa
                        _finding(findings, "model", "seam.blk.stripe.%s" % cls, "raises %s %s" % (type(e).__name__, e))
                        continue
            mv = common.model_to_float(louts[1 + i]["subs"])
            ok, where = common.deep_close(list(iv), mv)
            if not ok:
                _finding(findings, "model", "seam.blk.stripe.%s" % cls, "impl %r model %r" % (iv, mv))

    key_vals = []
    cache = {}
    for name in ("counts", "unweighted_counts", "weighted_bases", "unweighted_bases", "table_proportions"):
        impl = get(name)
        cache[name] = impl
        if v.kind == "mr" and name == "table_proportions":
            model = common.model_to_float(L[name]["base"])
            model = [model[s] for s in ro]
        else:
            model = assemble(L[name])
        ok, where = common.deep_close(impl, model)
        if not ok:
            _finding(findings, "model", "seam.msr.strand.%s" % name, "impl vs model%s impl=%r model=%r" % (where, impl, model))
    if case["sums"] is not None:
        impl = get("sums")
        model = assemble(L["sums"])
        ok, where = common.deep_close(impl, model)
        if not ok:
            _finding(findings, "model", "seam.msr.strand.sums", "impl vs model%s impl=%r model=%r" % (where, impl, model))
    # spec: counts by ids
    is_diff = L["spec_is_diff"]
    for name, sk in (("counts", "spec_counts"), ("unweighted_counts", "spec_ucounts")):
        impl = cache[name]
        if not isinstance(impl, list):
            continue
        spec = common.model_to_float(L[sk])
        for i, s in enumerate(ro):
            if s < 0:
                want = spec[ns + s]
                if case["valid"] != "none" and is_diff[ns + s]:
                    ctx.count("strand_valid_count_diff_cells")
                    continue      # see ASSUMPTIONS: not demanded on strands
                if not common.num_close(impl[i], want):
                    _finding(findings, "spec", "strand.%s.inserted" % name,
                             "display row %d: impl %r, statement (signed merge by ids) %r" % (i, impl[i], want))
                elif want == want and want != 0:
                    key_vals.append(want)
    got = get("diff_row_idxs")
    want = sorted(i for i, s in enumerate(ro) if s < 0 and is_diff[ns + s])
    if not isinstance(got, list) or sorted(got) != want:
        _finding(findings, "spec", "strand.diff_row_idxs", "impl %r statement %r" % (got, want))
    got = get("inserted_row_idxs")
    want = [i for i, s in enumerate(ro) if s < 0]
    if not isinstance(got, list) or sorted(got) != want:
        _finding(findings, "spec", "strand.inserted_row_idxs", "impl %r statement %r" % (got, want))
    for nm, key_ in (("means", "mean"), ("stddev", "stddev"), ("medians", "median")):
        if key_ not in case["extras"]:
            continue
        impl = get(nm)
        if not isinstance(impl, list):
            if ns:
                _finding(findings, "model", "api.strand.%s" % nm, repr(impl))
            continue
        for i, s in enumerate(ro):
            if s < 0 and not S.is_nan(impl[i]):
                _finding(findings, "spec", "strand.%s.not-nan" % nm, "inserted display row %d = %r" % (i, impl[i]))
    # categorical-date differences in table proportions (N1)
    tp = cache["table_proportions"]
    if v.kind == "cat_date" and isinstance(tp, list):
        body = common.model_to_float(L["table_proportions"]["base"])
        terms = L["spec_terms"]
        for i, s in enumerate(ro):
            if s >= 0 or not is_diff[ns + s]:
                continue
            t = terms[ns + s]
            if not t[0]:
                continue                     # pure-negative: the library's 1-D rule needs addends; signed quotient
            if len(t[0]) > 1 or len(t[1]) > 1:
                if not S.is_nan(tp[i]):
                    _finding(findings, "spec", "strand.table_proportions.catdate-multiterm-diff-not-nan",
                             "difference %r, display row %d = %r, statement NaN" % (t, i, tp[i]))
                else:
                    ctx.count("multi_term_nan_checked")
            else:
                x, y = body[t[0][0]], body[t[1][0]]
                want = x - y if not (S.is_nan(x) or S.is_nan(y)) else float("nan")
                if math.isinf(x) and math.isinf(y) and x == y:
                    want = float("nan")
                if not common.num_close(tp[i], want):
                    _finding(findings, "spec", "strand.table_proportions.catdate-wave-diff",
                             "difference +%d -%d, display row %d: impl %r, difference of the two percentages %r"
                             % (t[0][0], t[1][0], i, tp[i], want))
                else:
                    ctx.count("wave_diff_checked")
    # merge oracle on the strand
    if not findings:
        _strand_merge(case, vars_, survey, st, ro, L, findings, ctx)
    key = None
    if key_vals:
        key = ("strand-" + v.kind, repr(L["subtotals"]), tuple(sorted(set(key_vals)))[:6])
    return findings, key


STRAND_MERGE = ["counts", "unweighted_counts", "weighted_bases", "unweighted_bases", "table_proportions",
                "table_percentages", "table_proportion_stddevs", "table_proportion_stderrs", "table_proportion_moes",
                "population_counts", "population_counts_moe", "population_proportions", "sums", "share_sum"]


def _strand_merge(case, vars_, survey, st, ro, L, findings, ctx):
    v = vars_[0]
    if v.kind == "mr":
        return
    ns = len(L["subtotals"])
    vpos = v.valid_cat_pos
    done = 0
    for k, (adds, subsx) in enumerate(L["subtotals"]):
        if subsx or not adds or done >= 2:
            continue
        done += 1
        ctx.count("merge_oracle_runs")
        raw_add = [vpos[a] for a in adds]
        nv, recode = S.merge_var(v, raw_add)
        survey2 = S.merge_survey(survey, 0, recode)
        ex2 = {}
        for name, data in case["extras"].items():
            ex2[name] = [None if x is None else gen.frac_str(x) for x in
                         S.merge_flat(vars_, _frac_list(data), 0, raw_add, [nv], recode)]
        sums2 = None
        sums_clean = False
        if case["sums"] is not None:
            fl = _frac_list(case["sums"])
            sums2 = [None if x is None else gen.frac_str(x) for x in S.merge_flat(vars_, fl, 0, raw_add, [nv], recode)]
            sums_clean = all(x is not None for x in fl)
        try:
            cube2 = build_cube(case, [nv], survey2, {"rows": {"view": None, "transform": None}}, extras=ex2, sums=sums2)
            st2 = cube2.partitions[0]
            ro2 = _signed(st2.row_order())
        except Exception as e:  # noqa
            _finding(findings, "model", "oracle.merge.construction", "%s: %s" % (type(e).__name__, e))
            continue
        merged_idx = len(nv.valid_cat_pos) - 1
        pa = ro.index(k - ns) if (k - ns) in ro else None
        pb = ro2.index(merged_idx) if merged_idx in ro2 else None
        if pa is None or pb is None:
            continue
        for name in STRAND_MERGE:
            if name in ("sums", "share_sum") and (case["sums"] is None or not sums_clean):
                continue
            a = common.call_impl(lambda: getattr(st, name))
            b = common.call_impl(lambda: getattr(st2, name))
            if isinstance(a, dict) and isinstance(b, dict):
                continue
            if not isinstance(a, list) or not isinstance(b, list):
                if a is None and b is None:
                    continue
                locus = "merge.strand.%s" % name
                if isinstance(a, dict) and any(L["spec_is_diff"]) and name.startswith("population"):
                    if a.get("raises") == "ValueError" and v.kind == "cat_date":
                        locus = "strand.%s.catdate-diff-raises" % name      # F14
                    elif a.get("raises") == "IndexError":
                        locus = "strand.%s.diff-raises" % name              # F16
                _finding(findings, "spec", locus, "subtotal %r merged %r" % (a, b))
                continue
            if not common.num_close(a[pa], b[pb]):
                _finding(findings, "spec", "merge.strand.%s" % name,
                         "subtotal %d (addends %r) shows %r, merged category shows %r" % (k, adds, a[pa], b[pb]))
            else:
                ctx.count("merge_cells_equal")


def evaluate(case, louts, ctx):
    if case["mode"] == "slice":
        return _eval_slice(case, louts, ctx)
    return _eval_strand(case, louts, ctx)


def describe(case):
    vars_, survey = _load(case)
    return {"mode": case["mode"], "kinds": [v.kind for v in vars_], "raw_shape": gen.raw_shape(vars_),
            "n_respondents": len(survey), "weighted": case["weighted"], "valid": case["valid"],
            "insertions": case["ins"], "k": case["k"]}


def shrink_candidates(case):
    # fewer insertions first, then fewer respondents
    for key in ("rows", "cols"):
        spec = case["ins"].get(key)
        if not spec:
            continue
        for lvl in ("view", "transform"):
            lst = spec.get(lvl)
            if lst:
                for i in range(len(lst)):
                    c = copy.deepcopy(case)
                    c["ins"][key][lvl] = lst[:i] + lst[i + 1:]
                    yield c
    if case.get("blk"):
        yield dict(case, blk=None)
    if case.get("extras"):
        yield dict(case, extras={})
    if case.get("sums") is not None:
        yield dict(case, sums=None)
    if case.get("valid") != "none":
        yield dict(case, valid="none", valid_subset=[])
    sv = case["survey"]
    n = len(sv)
    if n > 1 and case.get("valid") == "none":
        yield dict(case, survey=sv[: n // 2])
        yield dict(case, survey=sv[n // 2:])
        for i in range(min(n, 12)):
            yield dict(case, survey=sv[:i] + sv[i + 1:])
    if any(w != "1" for w, _ in sv):
        yield dict(case, survey=[["1", a] for _, a in sv])
