"""C03 extension: source-formula tie (see _srcformulas.py / tools/srcformulas.py): the straight-line arithmetic of the working tree
(proportions = counts / bases, percentages = proportions * 100) is translated to Lean definitions over Val / Out on every run and proved equal,
for all argument values incl. NaN / +-inf, to the model's cell functions."""
from props import _srcformulas

PROPERTY = "C03"
THEOREMS = []
RULE = "source-formula tie: one case; proportions = counts / bases, percentages = proportions * 100 translated from the working tree and proved equal to the model's cell functions"
TRUSTED_EXTRA = ["tools/srcformulas.py (ast translator of straight-line numpy arithmetic; cell-wise reading of elementwise array code)"]
NAMES, generate, lean_ops, evaluate, describe = _srcformulas.module_for(PROPERTY, "proportions = counts / bases, percentages = proportions * 100")
