"""C07 extension — explicit orders (and hide keys) on DATETIME dimensions spelled with the integer element
ids of the cube response, with numeric strings of them, or with the datetime values.

On a datetime dimension the library identifies elements by their VALUE and translates integer ids through
a crosswalk (`_ElementIdShim._element_values_dict`).  The property speaks of "the listed order" of element
ids; whichever of the accepted spellings the list uses, it names the same elements.  Family (seam
`idspell`): datetime rows of strands and datetime rows / columns of slices (the other dimension cat / text /
MR / datetime), element ids arbitrary distinct non-negative integers in arbitrary payload order, the missing
('No Data', value {"?": -1}) element(s) ANYWHERE in the payload (first, middle, last, several, none); explicit
lists = permutations, subsets, repeats, stale ids, ids of missing elements, each occurrence spelled int /
numeric string / value; hide keys likewise; top / bottom subtotals (addends spelled by value).  The Lean
spec sees the canonical integer-id spelling only; the library must give the spec's order for every spelling.
Labels must follow the order (judged against the labels of the same response in payload order).
"""
import copy

import gen
import common
from props import _order_common as oc
from props import c07 as base
from props import c07_reads as rd

PROPERTY = "C07"
LEAN_MODULE = ["CrCube.Props.C07", "CrCube.Props.C07_IdShim"]
THEOREMS = [
    "CrCube.C07.crosswalk_of_valid", "CrCube.C07.crosswalk_of_other", "CrCube.C07.position_by_id_eq_by_value",
    "CrCube.C07.explicit_positions_spelling", "CrCube.C07.enumerate_crosswalk_counterexample",
]
RULE = ("idspell seam: datetime dimensions of 2-6 elements with random distinct ids, 0-2 missing elements anywhere "
        "(forced before the last element in half of the cases); explicit order present in 90 %, every occurrence spelled "
        "int / numeric string / datetime value; hide keys likewise; 0-2 top / bottom subtotals; other dimension "
        "none / cat / text / MR / datetime; 0-2 interleaved reads. non-trivial = as in the api seam; distinct = "
        "distinct (orders, spelled explicit list) key")
ASSUMPTIONS = [
    "element ids of a dimension are pairwise distinct, and so are the values of a datetime dimension's valid elements",
    "on a datetime dimension subtotal anchors are generated as top / bottom words only (an element anchor would have "
    "to be spelled by value, which the collator cannot parse: outside the property)",
]
TRUSTED_EXTRA = ["re-spelling of integer ids as numeric strings / datetime values (harness/props/c07_reads.py::spell_transforms)"]

OTHER_KINDS = ["cat", "cat", "text", "mr", "datetime"]
MODES = ["int", "int", "int", "str", "val"]


def _gen_dt_var(rng, alias):
    n = rng.choice([2, 3, 3, 4, 4, 5, 6])
    v = gen.gen_var(rng, "datetime", alias, n=n)
    valid = [c for c in v.cats if not c["missing"]]
    if rng.random() < 0.5 and len(valid) >= 2 and n >= 2:
        # a missing element that is NOT the last one (ids after it are off by one for a positional crosswalk)
        k = rng.randrange(n - 1)
        if sum(1 for j, c in enumerate(v.cats) if not c["missing"] and j != k) >= 1:
            v.cats[k]["missing"] = True
    if rng.random() < 0.25:
        # zz9-like ids 0..n-1 in payload order (the common case in production)
        for i, c in enumerate(v.cats):
            c["id"] = i
            c["name"] = "c%d" % i
    return v


def _dt_dimdesc(rng, var):
    all_ids = [c["id"] for c in var.cats]
    ids = [c["id"] for c in var.cats if not c["missing"]]
    stale = max(all_ids) + 5
    def ins(n):
        l = oc.rand_insertions(rng, ids, all_ids, n, bad=0.05)
        for i in l:
            if i["anchor"] not in ("top", "bottom", "TOP", "Bottom", None):
                i["anchor"] = rng.choice(["top", "bottom", "TOP", None])
        return l
    mode = rng.choice(["none", "none", "view", "tr"])
    view = ins(rng.randint(1, 2)) if mode == "view" else None
    tr = ins(rng.randint(1, 2)) if mode == "tr" else None
    order = None
    if rng.random() < 0.9:
        r = rng.random()
        if r < 0.4:
            e = rng.sample(ids, len(ids))[: rng.randint(1, len(ids))]            # permutation / subset of valid ids
        elif r < 0.7:
            e = rng.sample(all_ids, len(all_ids))[: rng.randint(1, len(all_ids))]  # may name missing elements
        else:
            e = [rng.choice(all_ids + [stale]) for _ in range(rng.randint(0, len(ids) + 2))]   # repeats, stale
        order = {"type": "explicit", "element_ids": e}
    return {"view": view, "insertions": tr, "hide": [i for i in all_ids if rng.random() < 0.15],
            "prune": rng.random() < 0.25, "order": order}


def _spell(rng):
    style = rng.choice(["int", "int", "str", "val", "mixed", "mixed"])
    def modes():
        if style == "mixed":
            return [rng.choice(MODES) for _ in range(8)]
        return [style]
    return {"order": modes(), "hide": modes()}


def _gen_case(rng):
    shape = rng.choice(["strand", "strand", "rows", "cols", "cols"])
    if shape == "strand":
        vars_ = [_gen_dt_var(rng, "v0")]
    else:
        other = rng.choice(OTHER_KINDS)
        o = _gen_dt_var(rng, "vx") if other == "datetime" else gen.gen_var(rng, other, "vx", n=rng.randint(1, 3))
        d = _gen_dt_var(rng, "vd")
        vars_ = [d, o] if shape == "rows" else [o, d]
    for i, v in enumerate(vars_):
        v.alias = "v%d" % i
    dims, spell = [], []
    for v in vars_:
        if v.kind == "datetime":
            dims.append(_dt_dimdesc(rng, v))
            spell.append(_spell(rng))
        else:
            dims.append(base._gen_dimdesc(rng, v))
            spell.append({})
    survey = gen.gen_survey(rng, vars_, n_resp=rng.choice([3, 8, 20, 20]), weighted=rng.random() < 0.5)
    reads = []
    if rng.random() < 0.3:
        reads = [rng.choice(["signed", "bogus", {"p": "row_labels"}, {"p": "counts"}, {"r": rng.randrange(10 ** 6)}])
                 for _ in range(rng.randint(1, 2))]
    return {"seam": "idspell", "vars": [v.to_json() for v in vars_], "survey": gen.survey_to_json(survey),
            "dims": dims, "spell": spell, "reads": reads}


def generate(ctx):
    return [_gen_case(ctx.rng) for _ in range(ctx.n(320, 6000))]


lean_ops = rd.lean_ops


def _spelled(case):
    """the explicit lists as the library is given them (for the finding's detail)."""
    try:
        _, transforms = rd.build(case)
        return {k: (t.get("order") or {}).get("element_ids") for k, t in transforms.items()}
    except Exception:  # noqa
        return None


_REF = {}


def _payload_labels(case):
    """labels of the same response with the same insertions but no order / hide / prune: signed idx -> label."""
    from cr.cube.cube import Cube
    c2 = dict(case, dims=[dict(dd, order=None, hide=[], prune=False) for dd in case["dims"]], reads=[])
    resp, transforms = rd.build(c2)
    part = Cube(resp, transforms=transforms).partitions[0]
    out = []
    for ax, lab in (("row", "row_labels"), ("column", "column_labels"))[: part.ndim]:
        order = oc.canon_order(common.call_impl(lambda: getattr(part, ax + "_order")()))
        labels = common.call_impl(lambda: getattr(part, lab))
        out.append(dict(zip(order, labels)) if isinstance(order, list) and isinstance(labels, list) else None)
    return out


def evaluate(case, louts, ctx):
    lib = rd.observe(case)
    vars_ = [gen.Var.from_json(d) for d in case["vars"]]
    ctx.count("idspell:%s" % "x".join(v.kind for v in vars_))
    findings, key = base._eval_api(case, louts, ctx, lib=lib)
    spelled = _spelled(case)
    for f in findings:
        f["locus"] = "idspell." + f["locus"]
        f["detail"] = "explicit lists as given %r: %s" % (spelled, f["detail"])
    if isinstance(lib, dict) and "trace" in lib:
        findings.extend(rd.trace_findings(lib, "idspell"))
        # labels follow the order, on the datetime dimensions (c07._eval_api judges cat / MR labels only)
        if not findings:
            ref = common.call_impl(lambda: _payload_labels(case))
            pos = 0
            for axis, v in enumerate(vars_):
                k = 1 if v.kind == "mr" else 2
                lo = louts[pos]
                pos += k
                name = "row" if axis == 0 else "col"
                if v.kind != "datetime" or not isinstance(ref, list) or ref[axis] is None:
                    continue
                signed, labels = lib.get(name + "_signed"), lib.get(name + "_labels")
                if signed != lo.get("spec_signed") or not isinstance(labels, list):
                    continue
                m = {int(a) if isinstance(a, str) and a.lstrip("-").isdigit() else a: b for a, b in ref[axis].items()}
                if not all(i in m for i in signed):
                    continue
                exp = [m[i] for i in signed]
                if labels != exp:
                    findings.append({"kind": "spec", "locus": "idspell.order.labels",
                                     "detail": "%s(datetime) labels %r, order %r names %r" % (name, labels, signed, exp)})
        for axis, v in enumerate(vars_):
            o = case["dims"][axis].get("order")
            if v.kind == "datetime" and o and any(c["missing"] for c in v.cats[:-1]):
                ctx.count("idspell:missing-not-last")
                break
    if key is not None:
        key = ("idspell",) + tuple(key[1:]) + (str(spelled),)
    return findings, key


def describe(case):
    return {"seam": "idspell", "kinds": [v["kind"] for v in case["vars"]],
            "elements": [[(c["id"], c["missing"]) for c in v["cats"]] for v in case["vars"]],
            "dims": case["dims"], "spell": case["spell"], "reads": case.get("reads"),
            "n_respondents": len(case["survey"])}


def shrink_candidates(case):
    for c in rd.shrink_candidates(case):
        yield c
    for a, sp in enumerate(case.get("spell") or []):
        for f in ("order", "hide"):
            if sp.get(f) and sp[f] != ["int"]:
                spell = copy.deepcopy(case["spell"])
                spell[a][f] = ["int"]
                yield dict(case, spell=spell)
