"""C13 extension: source-table tie (default alpha of the legacy pairwise constructors; see _srctables.py): the numeric literal in the working tree is
translated to an exact rational on every run and proved equal to the model's constant."""
from props import _srctables

PROPERTY = "C13"
THEOREMS = []
RULE = "source-table tie: one case; default alpha of the legacy pairwise constructors translated from the working tree and proved equal to the model constant"
TRUSTED_EXTRA = ["tools/srctables.py (ast translator of dict / enum / numeric literals)"]
NAMES = ["legacy_default_alpha"]
generate, lean_ops, evaluate, describe = _srctables.make_module(PROPERTY, NAMES, "default alpha of the legacy pairwise constructors")
