"""C09 — visibility: hidden iff asked, pruned iff empty by unweighted counts."""
import common
from props import _slice_common as sc
import gen
from fractions import Fraction

PROPERTY = "C09"
LEAN_MODULE = "CrCube.Props.C09"
THEOREMS = [
    "CrCube.C09.rowsPruningBase_spec",
    "CrCube.C09.empty_iff",
    "CrCube.C09.prune_weight_free",
    "CrCube.C09.positive_cell_never_pruned",
    "CrCube.C09.no_eligible_always_pruned",
    "CrCube.C09.mr_answered_counts",
    "CrCube.C09.mr_x_mr_selected_only",
    "CrCube.C09.columnsPruningBase_spec",
    "CrCube.C09.columns_empty_iff",
    "CrCube.C09.strand_pruning_base",
]
RULE = ("random designs (1-D and 2-D/3-D over cat/cat_date/datetime/text/mr/ca) x surveys with forced empty rows/columns/items and "
        "rows whose respondents all have weight 0 x all combinations of per-element hide flags, prune flags on both "
        "dimensions and (possibly hidden) subtotals; visibility of every base element and the presence of subtotals is "
        "derived from the respondent-level unweighted bases and compared with row_order/column_order/shape/is_empty/labels; "
        "non-trivial = at least one element hidden or pruned and at least one visible; distinct = (kinds, flags, order)")
ASSUMPTIONS = ["Spec.cubeOf is the back end's tabulation (checked per case in C01)"]


def gen_case(rng, kinds=None, max_n=4):
    """`kinds` (extension families): the variable kinds to use instead of drawing them"""
    if kinds is not None:
        kinds = list(kinds)
        nd = len(kinds)
    else:
        nd = rng.choice([1, 2, 2, 2, 2, 3])
        kinds = [rng.choice(["cat", "cat", "mr", "mr", "cat_date", "datetime", "text", "ca"]) for _ in range(nd)]
    if kinds.count("ca") > 1:
        f = kinds.index("ca")
        kinds = [k if k != "ca" or i == f else "cat" for i, k in enumerate(kinds)]
    if "ca" in kinds and nd != 2:
        kinds = [k if k != "ca" else "cat" for k in kinds]
    if "ca" in kinds:
        kinds = ["ca"]
    case = sc.gen_case(rng, kinds=kinds, max_n=max_n, derived_items=True)
    vars_, survey = sc.load(case)
    # zero-weight whole rows: weighted-empty but unweighted non-empty vectors
    if case["weighted"] and survey and rng.random() < 0.4:
        v0 = vars_[-2] if len(vars_) >= 2 else vars_[0]
        vi = len(vars_) - 2 if len(vars_) >= 2 else 0
        if not v0.is_array:
            tgt = rng.randrange(len(v0.cats))
            survey = [(Fraction(0) if ans[vi][0] == tgt else w, ans) for w, ans in survey]
            case["survey"] = gen.survey_to_json(survey)
    # transforms on the last two apparent dims (or the single one)
    if len(vars_) == 1 and vars_[0].kind == "ca":
        dimvars = [vars_[0], None]   # rows = CA items, cols = CA cats
    elif len(vars_) == 1:
        dimvars = [vars_[0]]
    else:
        dimvars = vars_[-2:]
    tr = {}
    names = ["rows_dimension", "columns_dimension"]
    for name, v in zip(names, dimvars):
        d = {}
        if rng.random() < 0.6:
            d["prune"] = True
        if v is None:
            ca = vars_[0]
            keys = sc.valid_ids(ca)
        else:
            keys = sc.element_keys(v)
        el = {}
        for kx in keys:
            r = rng.random()
            if r < 0.25:
                el[str(kx) if rng.random() < 0.5 else kx] = {"hide": True}
            elif r < 0.3:
                el[kx] = {"hide": False}
        if el:
            d["elements"] = {str(k): x for k, x in el.items()}
        if v is not None:
            ins = sc.gen_insertions(rng, v)
            if ins:
                d["insertions"] = ins
        if rng.random() < 0.3 and keys and (v is None or v.kind != "datetime"):
            l = list(keys)
            rng.shuffle(l)
            d["order"] = {"type": "explicit", "element_ids": l[: rng.randint(0, len(l))]}
        tr[name] = d
    # round-5 families: (a) a sort-by-value order on one dimension (the sort helpers have their own
    # subtotal-pruning hook); (b) every base vector of one dimension empty while the OTHER carries subtotals
    if rng.random() < 0.35 and all(v is not None and v.kind != "datetime" for v in dimvars):
        ax = rng.randrange(len(dimvars))
        v = dimvars[ax]
        o = rng.choice([{"type": "label"}, {"type": "label", "direction": "ascending"},
                        {"type": "payload_order"}]
                       + ([{"type": "univariate_measure", "measure": "count_unweighted"}] if len(dimvars) == 1 else [])
                       + ([{"type": "opposing_element", "measure": rng.choice(["col_percent", "row_percent", "count_unweighted"]),
                            "element_id": rng.choice(sc.element_keys(dimvars[1 - ax]) + [987])}] if len(dimvars) == 2 and sc.element_keys(dimvars[1 - ax]) else []))
        tr[names[ax]]["order"] = o
    case["transforms"] = tr
    if rng.random() < 0.25 and survey:
        # empty the whole table (nobody answers the last variable validly) or drop everybody
        v = vars_[-1]
        if not v.is_array and len(v.valid_cat_pos) < len(v.cats) and rng.random() < 0.6:
            mpos = [i for i in range(len(v.cats)) if i not in v.valid_cat_pos][0]
            survey = [(w, ans[:-1] + [[mpos]]) for w, ans in survey]
        else:
            survey = []
        case["survey"] = gen.survey_to_json(survey)
        for name in tr:
            if rng.random() < 0.8:
                tr[name]["prune"] = True
    # a numeric-measure response carrying only WEIGHTED valid counts: emptiness still comes from the unweighted
    # respondent counts (result.counts), never from the weighted valid counts
    if case["weighted"] and "ca" not in kinds and rng.random() < 0.2:
        case["wvalid_only"] = True
    return case


def generate(ctx):
    return [gen_case(ctx.rng) for _ in range(ctx.n(450, 4000))]


def lean_ops(case):
    return sc.api_ops(case)


def _hidden_flags(keys, d):
    el = (d or {}).get("elements", {})
    out = []
    for k in keys:
        x = el.get(str(k), {})
        out.append(x.get("hide") is True)
    return out


def _n_valid_subtotals(d):
    return sum(1 for i in (d or {}).get("insertions", []) if i.get("hide") is not True)


def slice_emptiness(spec, rk, ck, nr, nc):
    """respondent-level emptiness (property text) of the rows and columns of one slice, from the Lean `slice_spec` output of
    the UNWEIGHTED survey: a vector is empty iff no respondent is eligible for it over the opposing dimension; an MR vector
    crossed with a non-MR: answered (selected or not) counts; MR x MR: only selected counts."""
    urow = common.model_to_float(spec["urow_bases"])
    ucol = common.model_to_float(spec["ucolumn_bases"])
    utab = common.model_to_float(spec["utable_bases"])
    if rk == "mr" and ck != "mr":
        # eligible = answered item i with a valid column answer -> table base of the row's cells
        # (for array columns: summed over the column items)
        if ck == "cat":
            rows_empty = [nc == 0 or utab[i][0] == 0 for i in range(nr)]
        else:
            rows_empty = [sum(ucol[i]) == 0 for i in range(nr)]
    else:
        rows_empty = [sum(urow[i]) == 0 for i in range(nr)]
    if ck == "mr" and rk != "mr":
        if rk == "cat":
            cols_empty = [nr == 0 or utab[0][j] == 0 for j in range(nc)]
        else:
            cols_empty = [sum(urow[i][j] for i in range(nr)) == 0 for j in range(nc)]
    else:
        cols_empty = [sum(ucol[i][j] for i in range(nr)) == 0 for j in range(nc)]
    return rows_empty, cols_empty


def strand_emptiness(spec, kinds, n):
    """1-D: a categorical row is empty iff its unweighted count is 0; an MR item iff nobody answered it"""
    ub = common.model_to_float(spec["ubases"])
    uc = common.model_to_float(spec["ucounts"])
    return [(ub[i] == 0) if kinds == ["mr"] else (uc[i] == 0) for i in range(n)]


def evaluate(case, louts, ctx):
    import copy
    vars_, survey = sc.load(case)
    tr = case["transforms"]
    if case.get("wvalid_only"):
        from cr.cube.cube import Cube
        import gen
        wtab = [gen.num(x) for x in gen.tabulate(vars_, survey, True)]
        resp = gen.cube_response(vars_, survey, True, extra_measures={
            "mean": [1.5] * len(wtab), "valid_count_weighted": wtab})
        cube = Cube(resp, transforms=copy.deepcopy(tr))
        ctx.count("weighted_valid_counts_only")
    else:
        cube = sc.make_cube(case, transforms=copy.deepcopy(tr))
    return judge(case, louts, ctx, cube)


def judge(case, louts, ctx, cube, sfx="", alt_louts=None):
    """visibility of every partition of `cube` (built by the caller from `case`) against the respondent-level statement.
    `sfx` is appended to every locus (extension families name theirs); `alt_louts`: Lean outputs for a second reading of
    "unweighted counts" -- a partition on whose emptiness the two readings differ is not judged (weaker reading)."""
    vars_, survey = sc.load(case)
    kinds = sc.kinds_of(vars_)
    ctx.count("kinds:" + "x".join(kinds))
    findings = []
    key = None
    tr = case["transforms"]
    rd = tr.get("rows_dimension", {})
    cd = tr.get("columns_dimension", {})
    if len(kinds) >= 2:
        if len(vars_) == 1:  # CA
            rkeys, ckeys = sc.element_keys(vars_[0]), sc.valid_ids(vars_[0])
        else:
            rkeys, ckeys = sc.element_keys(vars_[-2]), sc.element_keys(vars_[-1])
        for k in range(sc.nparts(vars_)):
            api, spec = louts[2 * k], louts[2 * k + 1]
            sl = cube.partitions[k]
            rk, ck = kinds[-2], kinds[-1]
            nr, nc = len(rkeys), len(ckeys)
            rows_empty, cols_empty = slice_emptiness(spec, rk, ck, nr, nc)
            if alt_louts is not None and slice_emptiness(alt_louts[2 * k + 1], rk, ck, nr, nc) != (rows_empty, cols_empty):
                ctx.count("readings-disagree" + sfx)
                continue
            sc.compare(findings, "model", "seam.rows_pruning_mask" + sfx, rows_empty, api["rows_pruning_mask"], "spec-vs-model k=%d" % k)
            sc.compare(findings, "model", "seam.columns_pruning_mask" + sfx, cols_empty, api["columns_pruning_mask"], "spec-vs-model k=%d" % k)
            rhid = _hidden_flags(rkeys, rd)
            chid = _hidden_flags(ckeys, cd)
            rprune = rd.get("prune") is True
            cprune = cd.get("prune") is True
            exp_rows = [i for i in range(nr) if not rhid[i] and not (rprune and rows_empty[i])]
            exp_cols = [j for j in range(nc) if not chid[j] and not (cprune and cols_empty[j])]
            n_rsub = 0 if (cprune and all(cols_empty)) else _n_valid_subtotals(rd)
            n_csub = 0 if (rprune and all(rows_empty)) else _n_valid_subtotals(cd)
            ro = common.call_impl(lambda: sl.row_order())
            co = common.call_impl(lambda: sl.column_order())
            if not isinstance(ro, list) or not isinstance(co, list):
                findings.append({"kind": "spec", "locus": "slice.order.raises" + sfx, "detail": "%r %r" % (ro, co)})
                continue
            vis_r = [x for x in ro if x >= 0]
            vis_c = [x for x in co if x >= 0]
            if "order" in rd:
                vis_r = sorted(vis_r)      # an explicit order permutes; visibility is about membership
            if "order" in cd:
                vis_c = sorted(vis_c)
            if len(set(ro)) != len(ro) or len(set(co)) != len(co):
                findings.append({"kind": "spec", "locus": "slice.order.duplicate" + sfx, "detail": "%r %r" % (ro, co)})
            sc.compare(findings, "spec", "slice.row_order.visible-base" + sfx, vis_r, exp_rows,
                       "k=%d hidden=%s prune=%s empty=%s" % (k, rhid, rprune, rows_empty))
            sc.compare(findings, "spec", "slice.column_order.visible-base" + sfx, vis_c, exp_cols,
                       "k=%d hidden=%s prune=%s empty=%s" % (k, chid, cprune, cols_empty))
            sc.compare(findings, "spec", "slice.row_order.subtotal-count" + sfx, len([x for x in ro if x < 0]), n_rsub, "k=%d" % k)
            sc.compare(findings, "spec", "slice.column_order.subtotal-count" + sfx, len([x for x in co if x < 0]), n_csub, "k=%d" % k)
            shape = common.call_impl(lambda: sl.shape)
            sc.compare(findings, "spec", "slice.shape" + sfx, shape, [len(exp_rows) + n_rsub, len(exp_cols) + n_csub], "k=%d" % k)
            sc.compare(findings, "spec", "slice.is_empty" + sfx, common.call_impl(lambda: sl.is_empty),
                       (len(exp_rows) + n_rsub == 0) or (len(exp_cols) + n_csub == 0), "k=%d" % k)
            rl = common.call_impl(lambda: sl.row_labels)
            cl = common.call_impl(lambda: sl.column_labels)
            if isinstance(rl, list) and len(rl) != len(ro):
                findings.append({"kind": "spec", "locus": "slice.row_labels.length" + sfx, "detail": "%d vs %d" % (len(rl), len(ro))})
            if isinstance(cl, list) and len(cl) != len(co):
                findings.append({"kind": "spec", "locus": "slice.column_labels.length" + sfx, "detail": "%d vs %d" % (len(cl), len(co))})
            hid = (nr - len(exp_rows)) + (nc - len(exp_cols))
            if hid > 0 and exp_rows and exp_cols:
                key = ("x".join(kinds), repr(tr), tuple(ro), tuple(co))
            ctx.count("pruned_rows", sum(1 for i in range(nr) if rprune and rows_empty[i]))
            ctx.count("pruned_cols", sum(1 for j in range(nc) if cprune and cols_empty[j]))
            ctx.count("subtotals_pruned", int((cprune and all(cols_empty) and _n_valid_subtotals(rd) > 0) or
                                              (rprune and all(rows_empty) and _n_valid_subtotals(cd) > 0)))
    else:
        keys = sc.element_keys(vars_[0])
        alt = None if alt_louts is None else alt_louts[1]
        key = judge_strand(findings, ctx, cube.partitions[0], keys, kinds, louts[0], louts[1], tr, sfx=sfx, alt_spec=alt)
    return findings, key


def judge_strand(findings, ctx, st, keys, kinds, api, spec, tr, sfx="", alt_spec=None, where=""):
    """one strand against the 1-D statement; returns the non-triviality key (or None)"""
    rd = tr.get("rows_dimension", {})
    key = None
    empty = strand_emptiness(spec, kinds, len(keys))
    if alt_spec is not None and strand_emptiness(alt_spec, kinds, len(keys)) != empty:
        ctx.count("readings-disagree" + sfx)
        return None
    sc.compare(findings, "model", "seam.strand.pruning_mask" + sfx, empty, api["pruning_mask"], where + "spec-vs-model")
    hid = _hidden_flags(keys, rd)
    prune = rd.get("prune") is True
    exp = [i for i in range(len(keys)) if not hid[i] and not (prune and empty[i])]
    ro = common.call_impl(lambda: st.row_order())
    if not isinstance(ro, list):
        findings.append({"kind": "spec", "locus": "strand.order.raises" + sfx, "detail": where + repr(ro)})
    else:
        vis = [x for x in ro if x >= 0]
        if "order" in rd:
            vis = sorted(vis)
        if len(set(ro)) != len(ro):
            findings.append({"kind": "spec", "locus": "strand.order.duplicate" + sfx, "detail": where + "%r" % (ro,)})
        sc.compare(findings, "spec", "strand.row_order.visible-base" + sfx, vis, exp,
                   where + "hidden=%s prune=%s empty=%s" % (hid, prune, empty))
        nsub = _n_valid_subtotals(rd)
        sc.compare(findings, "spec", "strand.row_order.subtotal-count" + sfx, len([x for x in ro if x < 0]), nsub, where)
        sc.compare(findings, "spec", "strand.shape" + sfx, common.call_impl(lambda: st.shape), [len(exp) + nsub], where)
        sc.compare(findings, "spec", "strand.is_empty" + sfx, common.call_impl(lambda: st.is_empty), len(exp) + nsub == 0, where)
        rl = common.call_impl(lambda: st.row_labels)
        if isinstance(rl, list) and len(rl) != len(ro):
            findings.append({"kind": "spec", "locus": "strand.row_labels.length" + sfx, "detail": where + "%d vs %d" % (len(rl), len(ro))})
        if len(exp) < len(keys) and exp:
            key = ("x".join(kinds), repr(tr), tuple(ro))
        ctx.count("pruned_strand_rows", sum(1 for i in range(len(keys)) if prune and empty[i]))
    return key


def describe(case):
    d = sc.describe(case)
    d["transforms"] = case["transforms"]
    return d


shrink_candidates = sc.shrink_candidates
