"""C09 — visibility: hidden iff asked, pruned iff empty by unweighted counts."""
import common
from props import _slice_common as sc
import gen
from fractions import Fraction

PROPERTY = "C09"
LEAN_MODULE = "CrCube.Props.C09"
THEOREMS = [
    "CrCube.C09.rowsPruningBase_spec",
    "CrCube.C09.empty_iff",
    "CrCube.C09.prune_weight_free",
    "CrCube.C09.positive_cell_never_pruned",
    "CrCube.C09.no_eligible_always_pruned",
    "CrCube.C09.mr_answered_counts",
    "CrCube.C09.mr_x_mr_selected_only",
    "CrCube.C09.columnsPruningBase_spec",
    "CrCube.C09.columns_empty_iff",
    "CrCube.C09.strand_pruning_base",
]
RULE = ("random designs (1-D and 2-D/3-D over cat/cat_date/datetime/text/mr/ca) x surveys with forced empty rows/columns/items and "
        "rows whose respondents all have weight 0 x all combinations of per-element hide flags, prune flags on both "
        "dimensions and (possibly hidden) subtotals; visibility of every base element and the presence of subtotals is "
        "derived from the respondent-level unweighted bases and compared with row_order/column_order/shape/is_empty/labels; "
        "non-trivial = at least one element hidden or pruned and at least one visible; distinct = (kinds, flags, order)")
ASSUMPTIONS = ["Spec.cubeOf is the back end's tabulation (checked per case in C01)"]


def gen_case(rng):
    nd = rng.choice([1, 2, 2, 2, 2, 3])
    kinds = [rng.choice(["cat", "cat", "mr", "mr", "cat_date", "datetime", "text", "ca"]) for _ in range(nd)]
    if kinds.count("ca") > 1:
        f = kinds.index("ca")
        kinds = [k if k != "ca" or i == f else "cat" for i, k in enumerate(kinds)]
    if "ca" in kinds and nd != 2:
        kinds = [k if k != "ca" else "cat" for k in kinds]
    if "ca" in kinds:
        kinds = ["ca"]
    case = sc.gen_case(rng, kinds=kinds, max_n=4, derived_items=True)
    vars_, survey = sc.load(case)
    # zero-weight whole rows: weighted-empty but unweighted non-empty vectors
    if case["weighted"] and survey and rng.random() < 0.4:
        v0 = vars_[-2] if len(vars_) >= 2 else vars_[0]
        vi = len(vars_) - 2 if len(vars_) >= 2 else 0
        if not v0.is_array:
            tgt = rng.randrange(len(v0.cats))
            survey = [(Fraction(0) if ans[vi][0] == tgt else w, ans) for w, ans in survey]
            case["survey"] = gen.survey_to_json(survey)
    # transforms on the last two apparent dims (or the single one)
    if len(vars_) == 1 and vars_[0].kind == "ca":
        dimvars = [vars_[0], None]   # rows = CA items, cols = CA cats
    elif len(vars_) == 1:
        dimvars = [vars_[0]]
    else:
        dimvars = vars_[-2:]
    tr = {}
    names = ["rows_dimension", "columns_dimension"]
    for name, v in zip(names, dimvars):
        d = {}
        if rng.random() < 0.6:
            d["prune"] = True
        if v is None:
            ca = vars_[0]
            keys = sc.valid_ids(ca)
        else:
            keys = sc.element_keys(v)
        el = {}
        for kx in keys:
            r = rng.random()
            if r < 0.25:
                el[str(kx) if rng.random() < 0.5 else kx] = {"hide": True}
            elif r < 0.3:
                el[kx] = {"hide": False}
        if el:
            d["elements"] = {str(k): x for k, x in el.items()}
        if v is not None:
            ins = sc.gen_insertions(rng, v)
            if ins:
                d["insertions"] = ins
        if rng.random() < 0.3 and keys and (v is None or v.kind != "datetime"):
            l = list(keys)
            rng.shuffle(l)
            d["order"] = {"type": "explicit", "element_ids": l[: rng.randint(0, len(l))]}
        tr[name] = d
    # round-5 families: (a) a sort-by-value order on one dimension (the sort helpers have their own
    # subtotal-pruning hook); (b) every base vector of one dimension empty while the OTHER carries subtotals
    if rng.random() < 0.35 and all(v is not None and v.kind != "datetime" for v in dimvars):
        ax = rng.randrange(len(dimvars))
        v = dimvars[ax]
        o = rng.choice([{"type": "label"}, {"type": "label", "direction": "ascending"},
                        {"type": "payload_order"}]
                       + ([{"type": "univariate_measure", "measure": "count_unweighted"}] if len(dimvars) == 1 else [])
                       + ([{"type": "opposing_element", "measure": rng.choice(["col_percent", "row_percent", "count_unweighted"]),
                            "element_id": rng.choice(sc.element_keys(dimvars[1 - ax]) + [987])}] if len(dimvars) == 2 and sc.element_keys(dimvars[1 - ax]) else []))
        tr[names[ax]]["order"] = o
    case["transforms"] = tr
    if rng.random() < 0.25 and survey:
        # empty the whole table (nobody answers the last variable validly) or drop everybody
        v = vars_[-1]
        if not v.is_array and len(v.valid_cat_pos) < len(v.cats) and rng.random() < 0.6:
            mpos = [i for i in range(len(v.cats)) if i not in v.valid_cat_pos][0]
            survey = [(w, ans[:-1] + [[mpos]]) for w, ans in survey]
        else:
            survey = []
        case["survey"] = gen.survey_to_json(survey)
        for name in tr:
            if rng.random() < 0.8:
                tr[name]["prune"] = True
    # a numeric-measure response carrying only WEIGHTED valid counts: emptiness still comes from the unweighted
    # respondent counts (result.counts), never from the weighted valid counts
    if case["weighted"] and "ca" not in kinds and rng.random() < 0.2:
        case["wvalid_only"] = True
    return case


def generate(ctx):
    return [gen_case(ctx.rng) for _ in range(ctx.n(450, 4000))]


def lean_ops(case):
    return sc.api_ops(case)


def _hidden_flags(keys, d):
    el = (d or {}).get("elements", {})
    out = []
    for k in keys:
        x = el.get(str(k), {})
        out.append(x.get("hide") is True)
    return out


def _n_valid_subtotals(d):
    return sum(1 for i in (d or {}).get("insertions", []) if i.get("hide") is not True)


def evaluate(case, louts, ctx):
    import copy
    vars_, survey = sc.load(case)
    kinds = sc.kinds_of(vars_)
    ctx.count("kinds:" + "x".join(kinds))
    findings = []
    key = None
    tr = case["transforms"]
    if case.get("wvalid_only"):
        from cr.cube.cube import Cube
        import gen
        wtab = [gen.num(x) for x in gen.tabulate(vars_, survey, True)]
        resp = gen.cube_response(vars_, survey, True, extra_measures={
            "mean": [1.5] * len(wtab), "valid_count_weighted": wtab})
        cube = Cube(resp, transforms=copy.deepcopy(tr))
        ctx.count("weighted_valid_counts_only")
    else:
        cube = sc.make_cube(case, transforms=copy.deepcopy(tr))
    rd = tr.get("rows_dimension", {})
    cd = tr.get("columns_dimension", {})
    if len(kinds) >= 2:
        if len(vars_) == 1:  # CA
            rkeys, ckeys = sc.element_keys(vars_[0]), sc.valid_ids(vars_[0])
        else:
            rkeys, ckeys = sc.element_keys(vars_[-2]), sc.element_keys(vars_[-1])
        for k in range(sc.nparts(vars_)):
            api, spec = louts[2 * k], louts[2 * k + 1]
            sl = cube.partitions[k]
            urow = common.model_to_float(spec["urow_bases"])
            ucol = common.model_to_float(spec["ucolumn_bases"])
            utab = common.model_to_float(spec["utable_bases"])
            rk, ck = kinds[-2], kinds[-1]
            nr, nc = len(rkeys), len(ckeys)
            # respondent-level emptiness (property text):  a vector is empty iff no respondent is eligible for it
            # over the opposing dimension; MR vector crossed with a non-MR: answered (selected or not) counts;
            # MR x MR: only selected counts.
            if rk == "mr" and ck != "mr":
                # eligible = answered item i with a valid column answer -> table base of the row's cells
                # (for array columns: summed over the column items)
                if ck == "cat":
                    rows_empty = [nc == 0 or utab[i][0] == 0 for i in range(nr)]
                else:
                    rows_empty = [sum(ucol[i]) == 0 for i in range(nr)]
            else:
                rows_empty = [sum(urow[i]) == 0 for i in range(nr)]
            if ck == "mr" and rk != "mr":
                if rk == "cat":
                    cols_empty = [nr == 0 or utab[0][j] == 0 for j in range(nc)]
                else:
                    cols_empty = [sum(urow[i][j] for i in range(nr)) == 0 for j in range(nc)]
            else:
                cols_empty = [sum(ucol[i][j] for i in range(nr)) == 0 for j in range(nc)]
            sc.compare(findings, "model", "seam.rows_pruning_mask", rows_empty, api["rows_pruning_mask"], "spec-vs-model k=%d" % k)
            sc.compare(findings, "model", "seam.columns_pruning_mask", cols_empty, api["columns_pruning_mask"], "spec-vs-model k=%d" % k)
            rhid = _hidden_flags(rkeys, rd)
            chid = _hidden_flags(ckeys, cd)
            rprune = rd.get("prune") is True
            cprune = cd.get("prune") is True
            exp_rows = [i for i in range(nr) if not rhid[i] and not (rprune and rows_empty[i])]
            exp_cols = [j for j in range(nc) if not chid[j] and not (cprune and cols_empty[j])]
            n_rsub = 0 if (cprune and all(cols_empty)) else _n_valid_subtotals(rd)
            n_csub = 0 if (rprune and all(rows_empty)) else _n_valid_subtotals(cd)
            ro = common.call_impl(lambda: sl.row_order())
            co = common.call_impl(lambda: sl.column_order())
            if not isinstance(ro, list) or not isinstance(co, list):
                findings.append({"kind": "spec", "locus": "slice.order.raises", "detail": "%r %r" % (ro, co)})
                continue
            vis_r = [x for x in ro if x >= 0]
            vis_c = [x for x in co if x >= 0]
            if "order" in rd:
                vis_r = sorted(vis_r)      # an explicit order permutes; visibility is about membership
            if "order" in cd:
                vis_c = sorted(vis_c)
            if len(set(ro)) != len(ro) or len(set(co)) != len(co):
                findings.append({"kind": "spec", "locus": "slice.order.duplicate", "detail": "%r %r" % (ro, co)})
            sc.compare(findings, "spec", "slice.row_order.visible-base", vis_r, exp_rows,
                       "k=%d hidden=%s prune=%s empty=%s" % (k, rhid, rprune, rows_empty))
            sc.compare(findings, "spec", "slice.column_order.visible-base", vis_c, exp_cols,
                       "k=%d hidden=%s prune=%s empty=%s" % (k, chid, cprune, cols_empty))
            sc.compare(findings, "spec", "slice.row_order.subtotal-count", len([x for x in ro if x < 0]), n_rsub, "k=%d" % k)
            sc.compare(findings, "spec", "slice.column_order.subtotal-count", len([x for x in co if x < 0]), n_csub, "k=%d" % k)
            shape = common.call_impl(lambda: sl.shape)
            sc.compare(findings, "spec", "slice.shape", shape, [len(exp_rows) + n_rsub, len(exp_cols) + n_csub], "k=%d" % k)
            sc.compare(findings, "spec", "slice.is_empty", common.call_impl(lambda: sl.is_empty),
                       (len(exp_rows) + n_rsub == 0) or (len(exp_cols) + n_csub == 0), "k=%d" % k)
            rl = common.call_impl(lambda: sl.row_labels)
            cl = common.call_impl(lambda: sl.column_labels)
            if isinstance(rl, list) and len(rl) != len(ro):
                findings.append({"kind": "spec", "locus": "slice.row_labels.length", "detail": "%d vs %d" % (len(rl), len(ro))})
            if isinstance(cl, list) and len(cl) != len(co):
                findings.append({"kind": "spec", "locus": "slice.column_labels.length", "detail": "%d vs %d" % (len(cl), len(co))})
            hid = (nr - len(exp_rows)) + (nc - len(exp_cols))
            if hid > 0 and exp_rows and exp_cols:
                key = ("x".join(kinds), repr(tr), tuple(ro), tuple(co))
            ctx.count("pruned_rows", sum(1 for i in range(nr) if rprune and rows_empty[i]))
            ctx.count("pruned_cols", sum(1 for j in range(nc) if cprune and cols_empty[j]))
            ctx.count("subtotals_pruned", int((cprune and all(cols_empty) and _n_valid_subtotals(rd) > 0) or
                                              (rprune and all(rows_empty) and _n_valid_subtotals(cd) > 0)))
    else:
        api, spec = louts[0], louts[1]
        st = cube.partitions[0]
        v = vars_[0]
        keys = sc.element_keys(v)
        ub = common.model_to_float(spec["ubases"])
        uc = common.model_to_float(spec["ucounts"])
        # 1-D: a categorical row is empty iff its unweighted count is 0; an MR item iff nobody answered it
        empty = [(ub[i] == 0) if kinds == ["mr"] else (uc[i] == 0) for i in range(len(keys))]
        sc.compare(findings, "model", "seam.strand.pruning_mask", empty, api["pruning_mask"], "spec-vs-model")
        hid = _hidden_flags(keys, rd)
        prune = rd.get("prune") is True
        exp = [i for i in range(len(keys)) if not hid[i] and not (prune and empty[i])]
        ro = common.call_impl(lambda: st.row_order())
        if not isinstance(ro, list):
            findings.append({"kind": "spec", "locus": "strand.order.raises", "detail": repr(ro)})
        else:
            vis = [x for x in ro if x >= 0]
            if "order" in rd:
                vis = sorted(vis)
            if len(set(ro)) != len(ro):
                findings.append({"kind": "spec", "locus": "strand.order.duplicate", "detail": "%r" % (ro,)})
            sc.compare(findings, "spec", "strand.row_order.visible-base", vis, exp,
                       "hidden=%s prune=%s empty=%s" % (hid, prune, empty))
            nsub = _n_valid_subtotals(rd)
            sc.compare(findings, "spec", "strand.row_order.subtotal-count", len([x for x in ro if x < 0]), nsub, "")
            sc.compare(findings, "spec", "strand.shape", common.call_impl(lambda: st.shape), [len(exp) + nsub], "")
            sc.compare(findings, "spec", "strand.is_empty", common.call_impl(lambda: st.is_empty), len(exp) + nsub == 0, "")
            if len(exp) < len(keys) and exp:
                key = ("x".join(kinds), repr(tr), tuple(ro))
    return findings, key


def describe(case):
    d = sc.describe(case)
    d["transforms"] = case["transforms"]
    return d


shrink_candidates = sc.shrink_candidates
