"""C01 — cell values are faithful tabulations of the survey behind the response.

Seams: tabulator-vs-cubeOf (trusted contract), `slice_counts` (Model, from the raw array),
`slice_spec` (Spec, respondent level), public API counts of every partition.
"""
from fractions import Fraction
import gen
import common

PROPERTY = "C01"
LEAN_MODULE = "CrCube.Props.C01"
THEOREMS = [
    "CrCube.C01.counts_faithful_2d",
    "CrCube.C01.counts_faithful_3d",
    "CrCube.C01.ucounts_faithful_2d",
    "CrCube.C01.ucounts_faithful_3d",
    "CrCube.C01.extent_is_valid_elements",
    "CrCube.C01.missing_never_contributes",
    "CrCube.C01.numeric_reports_payload",
    "CrCube.C01.flat_payload_reshape",
    "CrCube.C01.counts_from_flat_payload",
    "CrCube.C01.strand_counts_faithful",
    "CrCube.C01.strand_extent",
    "CrCube.C01.ca_counts_faithful",
    "CrCube.C06.partition_restricts",
]
RULE = ("random designs (1-3 variables over cat/cat_date/datetime/text/binned/mr/ca, missing categories at "
        "any payload position) x random surveys (0-40 respondents, dyadic weights incl. 0); a case is "
        "non-trivial when it has >=2 distinct positive cell values; distinct = distinct (kinds, raw counts) key")
ASSUMPTIONS = ["Spec.cubeOf is the back end's tabulation (checked against the Python tabulator per case)"]

KINDS = ["cat", "cat", "mr", "mr", "cat_date", "datetime", "text", "binned", "ca"]


def gen_case(rng):
    nd = rng.choice([1, 2, 2, 2, 3, 3])
    kinds = [rng.choice(KINDS) for _ in range(nd)]
    if kinds.count("ca") > 1:
        kinds = [k if k != "ca" or i == kinds.index("ca") else "cat" for i, k in enumerate(kinds)]
    if "ca" in kinds and nd == 3:
        kinds = kinds[:2]
    if "ca" in kinds and len(kinds) == 2:
        # CA occupies two apparent dims; keep cube <= 3 apparent dims (always true here)
        pass
    vars_ = [gen.gen_var(rng, k, "v%d" % i, n=rng.randint(1, 4), missing_items=True) for i, k in enumerate(kinds)]
    weighted = rng.random() < 0.65
    survey = gen.gen_survey(rng, vars_, weighted=weighted)
    numeric = None
    return {"vars": [v.to_json() for v in vars_], "survey": gen.survey_to_json(survey),
            "weighted": weighted}


def generate(ctx):
    return [gen_case(ctx.rng) for _ in range(ctx.n(150, 3000))]


def _load(case):
    vars_ = [gen.Var.from_json(d) for d in case["vars"]]
    survey = gen.survey_from_json(case["survey"])
    return vars_, survey


def n_apparent(vars_):
    return sum(len(v.apparent_kinds()) for v in vars_)


def lean_ops(case):
    vars_, survey = _load(case)
    lv = [v.lean() for v in vars_]
    ls = gen.survey_lean(vars_, survey)
    ops = [{"op": "cubeof", "vars": lv, "survey": ls}]
    if n_apparent(vars_) >= 2:
        wdata = [gen.frac_str(x) for x in gen.tabulate_valid_items(vars_, survey, case["weighted"])]
        udata = [gen.frac_str(x) for x in gen.tabulate_valid_items(vars_, survey, False)]
        nparts = _nparts(vars_)
        for k in range(nparts):
            ops.append({"op": "slice_counts", "vars": lv, "data": wdata, "k": k})
            ops.append({"op": "slice_counts", "vars": lv, "data": udata, "k": k})
            ops.append({"op": "slice_spec", "vars": lv, "survey": ls, "k": k})
    return ops


def _nparts(vars_):
    if n_apparent(vars_) < 3:
        return 1
    v = vars_[0]
    return len(v.valid_item_pos) if v.is_array else len(v.valid_cat_pos)


def evaluate(case, louts, ctx):
    from cr.cube.cube import Cube
    vars_, survey = _load(case)
    findings = []
    kinds = sum((v.apparent_kinds() for v in vars_), [])
    ctx.count("kinds:" + "x".join(kinds))
    # 1. tabulator == cubeOf
    w = [gen.frac_str(x) for x in gen.tabulate_valid_items(vars_, survey, True)]
    u = [gen.frac_str(x) for x in gen.tabulate_valid_items(vars_, survey, False)]
    if louts[0]["weighted"] != w or louts[0]["unweighted"] != u:
        raise common.HarnessFault("python tabulator != Lean cubeOf on %r" % case)
    resp = gen.cube_response(vars_, survey, case["weighted"])
    cube = Cube(resp)
    nd = n_apparent(vars_)
    key = None
    if nd >= 2:
        parts = common.call_impl(lambda: len(cube.partitions))
        nparts = _nparts(vars_)
        if parts != nparts:
            findings.append({"kind": "spec", "locus": "npartitions", "detail": "%r != %r" % (parts, nparts)})
            return findings, key
        vals = set()
        for k in range(nparts):
            mw, mu, sp = louts[1 + 3 * k], louts[2 + 3 * k], louts[3 + 3 * k]
            sl = cube.partitions[k]
            ic = common.call_impl(lambda: sl.counts)
            iu = common.call_impl(lambda: sl.unweighted_counts)
            sw = common.model_to_float(sp["counts"] if case["weighted"] else sp["ucounts"])
            su = common.model_to_float(sp["ucounts"])
            for name, impl, spec, model in (("counts", ic, sw, mw["xtr"]["counts"]),
                                            ("unweighted_counts", iu, su, mu["xtr"]["counts"])):
                ok, where = common.deep_close(impl, spec)
                if not ok:
                    findings.append({"kind": "spec", "locus": "slice.%s" % name,
                                     "detail": "partition %d %s: impl%s (impl=%r spec=%r)" % (k, name, where, impl, spec)})
                ok, where = common.deep_close(impl, common.model_to_float(model))
                if not ok:
                    findings.append({"kind": "model", "locus": "seam.slice_counts.%s" % name,
                                     "detail": "partition %d: impl vs model%s" % (k, where)})
            if isinstance(ic, list):
                for row in ic:
                    for x in row:
                        if isinstance(x, (int, float)) and x > 0:
                            vals.add(x)
        if len(vals) >= 2:
            key = ("x".join(kinds), tuple(u))
    else:
        # 1-D: strand counts from the spec directly (cat: count of valid category; mr: selected)
        st = cube.partitions[0]
        v = vars_[0]
        ic = common.call_impl(lambda: st.counts)
        iu = common.call_impl(lambda: st.unweighted_counts)
        def spec(weighted):
            out = []
            if v.is_array and v.kind == "mr":
                for k in v.valid_item_pos:
                    out.append(float(sum((w if weighted else 1) for w, a in survey if a[0][k] == 0)))
            else:
                for c in v.valid_cat_pos:
                    out.append(float(sum((w if weighted else 1) for w, a in survey if a[0][0] == c)))
            return out
        for name, impl, sp in (("counts", ic, spec(case["weighted"])), ("unweighted_counts", iu, spec(False))):
            ok, where = common.deep_close(impl, sp)
            if not ok:
                findings.append({"kind": "spec", "locus": "strand.%s" % name,
                                 "detail": "impl%s (impl=%r spec=%r)" % (where, impl, sp)})
        if isinstance(ic, list) and len({x for x in ic if x > 0}) >= 2:
            key = ("x".join(kinds), tuple(u))
    return findings, key


def describe(case):
    vars_, survey = _load(case)
    return {"kinds": [v.kind for v in vars_], "raw_shape": gen.raw_shape(vars_),
            "n_respondents": len(survey), "weighted": case["weighted"],
            "missing_flags": [v.cat_missing for v in vars_],
            "first_respondents": case["survey"][:3]}


def shrink_candidates(case):
    sv = case["survey"]
    n = len(sv)
    if n > 1:
        yield dict(case, survey=sv[: n // 2])
        yield dict(case, survey=sv[n // 2:])
    for i in range(min(n, 20)):
        yield dict(case, survey=sv[:i] + sv[i + 1:])
    if any(w != "1" for w, _ in sv):
        yield dict(case, survey=[["1", a] for _, a in sv])
