"""C01 extension — numeric cube measures (mean / sum / stddev / median / valid counts) over categorical,
multiple-response and categorical-array dimensions, 0-D (nub) to 3-D, and which array every count output reads.

Seams: `num_api` (Lean Model: payload decoding incl. {"?": code} -> NaN, reshape rule, measure precedence,
valid-index grid, slice expression, MR plane) versus the real library on every public output;
`num_spec` (Lean Spec: the value the response carries for the cell, read from the back-end layout, and
respondent-level valid counts) versus the real library.
"""
from props import _numarr_gen as ng

PROPERTY = "C01"
LEAN_MODULE = "CrCube.Props.C01_Numeric"
THEOREMS = [
    "CrCube.C01.unavailable_decodes_nan",
    "CrCube.C01.number_decodes_itself",
    "CrCube.C01.null_decodes_nan",
    "CrCube.C01.decode_nan_iff",
    "CrCube.C01.null_surfaces_as_nan_2d",
    "CrCube.C01.flat_values_entrywise",
    "CrCube.C01.numeric_plane_is_counts_plane",
    "CrCube.C01.numeric_reports_payload_2d",
    "CrCube.C01.numeric_reports_payload_3d",
    "CrCube.C01.numeric_reports_payload_1d",
    "CrCube.C01.numeric_reports_payload_0d",
    "CrCube.C01.counts_extractor_reads_same_cell",
    "CrCube.C01.numeric_flat_reports_cell_2d",
    "CrCube.C01.numeric_flat_reports_cell_3d",
    "CrCube.C01.unavailable_surfaces_as_nan_2d",
    "CrCube.C01.reshape_rule",
    "CrCube.C01.flat_absent_iff",
    "CrCube.C01.weighted_outputs_source",
    "CrCube.C01.unweighted_outputs_source",
    "CrCube.C01.assembled_needs_unweighted_counts",
    "CrCube.C01.missing_count_cases",
]
RULE = ("numeric measures: random designs of 0-3 apparent dimensions over cat/cat_date/datetime/text/binned/mr/ca "
        "(missing categories anywhere) x respondent-level surveys with a dyadic numeric value or missing per respondent "
        "x random subsets of {mean,sum,stddev,median} x valid-count presence {none,u,w,uw} x count measure present or not "
        "x {'?': code} holes and JSON-null holes at random payload positions, dict and JSON-text responses; non-trivial = some reported numeric output has >= 2 distinct "
        "finite values; distinct = (kinds, valid-count mode, measures, values)")
ASSUMPTIONS = ["numeric measures are laid out row-major over the raw group cells (as `count` is); valid counts count the "
               "respondents of the raw cell that have a value (Spec.validCountsScalar)"]

KINDS = ["cat", "cat", "mr", "mr", "mr", "cat_date", "datetime", "text", "binned", "ca"]

# every position of a multiple-response dimension in 1-D, 2-D and 3-D cubes, on every run
SYSTEMATIC = ([[]] + [[a] for a in ("cat", "mr")] + [[a, b] for a in ("cat", "mr") for b in ("cat", "mr")]
              + [[a, b, c] for a in ("cat", "mr") for b in ("cat", "mr") for c in ("cat", "mr")]
              + [["ca"], ["ca", "mr"], ["mr", "ca"], ["cat", "ca"]])


def gen_kinds(rng):
    nd = rng.choice([0, 1, 1, 2, 2, 2, 3, 3, 3])
    kinds = []
    app = 0
    while app < nd:
        k = rng.choice(KINDS)
        w = 2 if k == "ca" else 1
        if app + w > nd or (k == "ca" and "ca" in kinds):
            k, w = "cat", 1
        kinds.append(k)
        app += w
    return kinds


def generate(ctx):
    out = []
    for kinds in SYSTEMATIC:
        # all four measures + both valid counts, 2-3 elements per dimension (so planes and axes differ in extent)
        out.append(ng.gen_case(ctx.rng, kinds, 1, False, measures=list(ng.NUMERIC_MEASURES),
                               vc=ctx.rng.choice(["uw", "u", "none"]), n_resp=ctx.rng.randint(15, 40),
                               min_n=2))
    for _ in range(ctx.n(110, 2500)):
        out.append(ng.gen_case(ctx.rng, gen_kinds(ctx.rng), 1, False))
    return out


def lean_ops(case):
    return ng.lean_ops(case)


def evaluate(case, louts, ctx):
    return ng.evaluate_case(case, louts, ctx, "c01", "numeric")


describe = ng.describe
shrink_candidates = ng.shrink_candidates
