"""C12 extension: z-scores / p-values under DISPLAY transforms, and insertion lists with twins.

Two generator families, both judged by the oracles of `props/c12.py` (Lean Spec `c12_spec` from the
respondents, Lean Model `c12_model`, p-z pairing, residual_test_stats == [pvals, zscores]):

(a) display: hide / prune / order transforms on either dimension of a NON-degenerate table, leaving 1..n
    visible rows / columns (hide-all-but-one on rows, on columns, on both; partial hides; prune with empty
    margins; explicit orders incl. stale / repeated ids; label order).  A cell's z and p are functions of
    its own count and bases, and a table is defective by its VALID rows / columns - so the displayed matrix
    must be the untransformed block matrix re-indexed by the slice's own row / column order, the hidden
    elements must be exactly the ones left out (without prune), and every displayed z must pair with its
    own p = 2(1 - Phi(|z|)) (NaN iff NaN), in pvals / zscores and in the two planes of residual_test_stats.
(b) twins: insertion lists, on both dimensions so that intersection cells exist, in which two or three
    insertions share their addends and differ only in their subtrahends (plain subtotal next to one or two
    differences, args permuted, any listing order, optional unrelated insertion in between).
"""
from fractions import Fraction

import gen
from props import stats_util as su
from props import c12 as base

PROPERTY = "C12"
LEAN_MODULE = "CrCube.Props.C12_Display"
THEOREMS = ["CrCube.C12.pick_table", "CrCube.C12.display_z_eq_spec", "CrCube.C12.display_p_pairs_z",
            "CrCube.C12.twin_independent"]
RULE = ("(a) non-degenerate 2-D / 3-D tables over cat/cat_date/mr/text/datetime with hide (all but one element, or a "
        "random proper subset), prune and explicit / label order transforms on rows, columns or both, displayed shapes "
        "1 x n, n x 1, 1 x 1 and m x n, optional insertions; (b) CAT-like x CAT-like tables with twin insertions (same "
        "addends, with / without subtrahends, any listing order) on rows and columns; non-trivial and distinct as in c12")
ASSUMPTIONS = ["the slice's own row_order() / column_order() name the displayed rows / columns (ordering itself is "
               "property C05's); only membership (hidden elements absent, nothing else absent without prune) is demanded"]
TRUSTED_EXTRA = []

CATK = ["cat", "cat", "cat_date"]
DKINDS = ["cat", "cat", "cat", "cat_date", "mr", "mr", "text", "datetime"]


def _gen_order(rng, v):
    ids = su.valid_element_ids(v)
    r = rng.random()
    if r < 0.55:
        return None
    if r < 0.9:
        l = list(ids) + [9999]
        rng.shuffle(l)
        l = l[: rng.randint(0, len(l))]
        if l and rng.random() < 0.25:
            l.append(l[0])
        return {"type": "explicit", "element_ids": l}
    return {"type": "label", "direction": rng.choice(["ascending", "descending"])}


def _gen_side_display(rng, v, want_one):
    ids = su.valid_element_ids(v)
    d = {}
    if want_one and len(ids) >= 2:
        keep = rng.choice(ids)
        d["hide"] = [i for i in ids if i != keep]
    elif len(ids) >= 2 and rng.random() < 0.6:
        d["hide"] = rng.sample(ids, rng.randint(1, len(ids) - 1))
    if rng.random() < 0.35:
        d["prune"] = True
    o = _gen_order(rng, v)
    if o:
        d["order"] = o
    return d


def gen_display_case(rng):
    nd = rng.choice([2, 2, 2, 3])
    kinds = [rng.choice(DKINDS) for _ in range(2)]
    if nd == 3:
        kinds = [rng.choice(["cat", "mr", "cat_date"])] + kinds
    vars_ = []
    for i, kd in enumerate(kinds):
        nv = rng.choice([2, 3, 3, 4]) if (nd == 2 or i) else rng.randint(1, 2)
        vars_.append(su.gen_dim_var(rng, kd, "v%d" % i, n_valid=nv, n_missing=rng.choice([0, 0, 1, 2]),
                                    missing_first=rng.random() < 0.4))
    weighted = rng.random() < 0.55
    survey = su.gen_survey(rng, vars_, rng.choice([15, 20, 30, 40]), weighted)
    row_ins = col_ins = []
    if vars_[-2].kind in ("cat", "cat_date") and rng.random() < 0.4:
        row_ins = su.gen_insertions(rng, vars_[-2], rng.randint(1, 2), p_diff=0.3)
    if vars_[-1].kind in ("cat", "cat_date") and rng.random() < 0.4:
        col_ins = su.gen_insertions(rng, vars_[-1], rng.randint(1, 2), p_diff=0.3)
    shape = rng.choice(["1xn", "nx1", "1x1", "mxn", "1xn", "nx1"])
    disp = {"rows": _gen_side_display(rng, vars_[-2], shape in ("1xn", "1x1")),
            "cols": _gen_side_display(rng, vars_[-1], shape in ("nx1", "1x1"))}
    disp = {k: d for k, d in disp.items() if d}
    return {"vars": [v.to_json() for v in vars_], "survey": gen.survey_to_json(survey), "weighted": weighted,
            "row_ins": row_ins, "col_ins": col_ins, "mode": "display-" + shape, "display": disp,
            "scale": su.pick_scale(rng, 0.1), "wregime": None}


def _twin_list(rng, var):
    """insertions on `var` among which 2-3 share their addends (one plain, the others differences)"""
    ids = [c["id"] for c in var.cats if not c["missing"]]
    na = rng.randint(1, max(1, min(2, len(ids) - 1)))
    add = rng.sample(ids, na)
    rest = [i for i in ids if i not in add]
    out = []

    def mk(neg):
        a = list(add)
        rng.shuffle(a)
        d = {"function": "subtotal", "args": a, "anchor": rng.choice(["top", "bottom"] + ids), "name": "tw%d" % len(out)}
        if neg:
            d["kwargs"] = {"negative": neg}
        if rng.random() < 0.3:
            d.setdefault("kwargs", {})["positive"] = list(a)
        out.append(d)
    n_diff = rng.choice([1, 1, 2]) if rest else 0
    negs = []
    for _ in range(n_diff):
        neg = rng.sample(rest, rng.randint(1, min(2, len(rest))))
        if sorted(neg) not in negs:
            negs.append(sorted(neg))
            mk(neg)
    mk([])
    if rng.random() < 0.4:
        out.extend(su.gen_insertions(rng, var, 1, p_diff=0.4, p_stale=0.0))
        out[-1]["name"] = "other%d" % len(out)
    rng.shuffle(out)
    return out


def gen_twin_case(rng):
    nd = rng.choice([2, 2, 2, 3])
    kinds = [rng.choice(CATK), rng.choice(CATK)]
    if nd == 3:
        kinds = [rng.choice(["cat", "mr"])] + kinds
    vars_ = []
    for i, kd in enumerate(kinds):
        nv = rng.choice([3, 3, 4]) if (nd == 2 or i) else rng.randint(1, 2)
        vars_.append(su.gen_dim_var(rng, kd, "v%d" % i, n_valid=nv, n_missing=rng.choice([0, 0, 1]),
                                    missing_first=rng.random() < 0.4))
    weighted = rng.random() < 0.55
    survey = su.gen_survey(rng, vars_, rng.choice([20, 30, 40]), weighted)
    which = rng.choice(["rows", "cols", "both"])
    plain = lambda v: su.gen_insertions(rng, v, rng.randint(1, 2), p_diff=0.25, p_stale=0.0)  # noqa: E731
    row_ins = _twin_list(rng, vars_[-2]) if which in ("rows", "both") else plain(vars_[-2])
    col_ins = _twin_list(rng, vars_[-1]) if which in ("cols", "both") else plain(vars_[-1])
    return {"vars": [v.to_json() for v in vars_], "survey": gen.survey_to_json(survey), "weighted": weighted,
            "row_ins": row_ins, "col_ins": col_ins, "mode": "twins-" + which,
            "scale": su.pick_scale(rng, 0.1), "wregime": None}


def generate(ctx):
    n_disp, n_twin = ctx.n(90, 5000), ctx.n(60, 3000)
    return [gen_display_case(ctx.rng) for _ in range(n_disp)] + [gen_twin_case(ctx.rng) for _ in range(n_twin)]


lean_ops = base.lean_ops


def evaluate(case, louts, ctx):
    findings, key = base.evaluate(case, louts, ctx)
    if key is not None:
        ctx.count("nontrivial:" + case["mode"].split("-")[0])
        key = (case["mode"],) + tuple(key)
    return findings, key


def describe(case):
    d = base.describe(case)
    d["display"] = case.get("display")
    return d


def shrink_candidates(case):
    disp = case.get("display") or {}
    for side in ("rows", "cols"):
        d = disp.get(side) or {}
        for k in ("order", "prune"):
            if k in d:
                yield dict(case, display=dict(disp, **{side: {kk: vv for kk, vv in d.items() if kk != k}}))
        h = d.get("hide") or []
        for i in range(len(h)):
            if len(h) > 1:
                yield dict(case, display=dict(disp, **{side: dict(d, hide=h[:i] + h[i + 1:])}))
    for c in base.shrink_candidates(case):
        yield c
