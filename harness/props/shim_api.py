"""C19 at the public API: real cubes with array dimensions, transforms written in every spelling.

A case fixes a cube layout, an item-id pattern, a transform slot and an item; the module builds the
transform once per spelling class and demands identical labels / order / values from every partition
(the Lean spec resolver says that all these references denote the same item), the effect predicted by the
Lean spec view for the alias spelling, and no effect from added unmatched references.
"""
import copy
import json
import random

import common
import gen
from props import shim_common as sc

SPELLS = ("alias", "subvar", "int", "str", "posint", "posstr")


def make_items(n, idpat, prefix, n_ins=0, alias_style="plain", all_derived=False, sv_style="pad"):
    """items of an array variable.  alias_style "numeric": the alias of item i is the decimal element id of item
    i+1 (a colliding but legal payload: exercises the alias-first rule on re-shimming); all_derived: the real
    sub-variables are flagged derived too (a derived MR variable), independently of having an anchor."""
    ids = {"pos": list(range(n)), "one": list(range(1, n + 1)), "rev": list(range(n, 0, -1)),
           "sparse": [11, 23, 35, 47][:n], "neg": [-1, 0, 7, 2][:n]}[idpat]
    items = []
    for i in range(n):
        alias = "%s_%c" % (prefix, chr(97 + i))
        if alias_style == "numeric" and n >= 2:
            alias = str(ids[(i + 1) % n])
        # "dec": as in real MR-insertion payloads: real sub-variables numbered "1","2",.. among themselves (so the
        # decimal strings are SHIFTED against the renumbered element ids), inserted ones carry their name
        if sv_style == "pad":
            svid = "%04d" % (ids[i] + 20)
        elif i < n_ins:
            svid = "%s ins %d" % (prefix, i)
        else:
            svid = str(i - n_ins + 1)
        items.append({"id": ids[i], "alias": alias, "subvar_id": svid,
                      "name": "%s item %d" % (prefix, i), "anchor": i < n_ins, "derived": all_derived or i < n_ins})
    return items


def add_mr_insertions(resp, var_alias, items):
    """mark the anchored items of MR variable `var_alias` as inserted (view insertions on BOTH of its dimension
    dicts, `anchor` in the element references) and copy the `derived` flags"""
    for dim in resp["result"]["dimensions"]:
        if dim["references"].get("alias") != var_alias:
            continue
        dim["references"]["view"] = {"transform": {"insertions": [
            {"anchor": "top", "function": "any_non_missing_selected", "name": it["name"], "id": i + 1,
             "kwargs": {"variable": var_alias, "subvariable_ids": []}} for i, it in enumerate(items) if it["anchor"]]}}
        if dim["type"]["class"] == "enum":
            for el, it in zip(dim["type"]["elements"], items):
                el["value"]["derived"] = bool(it["derived"])
                if it["anchor"]:
                    el["value"]["references"]["anchor"] = "top"


def lean_dim(items, mr_ins):
    return {"items": [{"id": it["id"], "alias": it["alias"], "subvar_id": it["subvar_id"],
                       "anchor": bool(it.get("anchor")), "derived": bool(it.get("derived"))} for it in items],
            "mr_ins": mr_ins, "no_subvar_ids": any(it.get("no_id") for it in items)}


def drop_subvar_ids(resp, var_alias, items):
    """remove the optional `value.id` from the elements of the items flagged `no_id`"""
    for dim in resp["result"]["dimensions"]:
        if dim["references"].get("alias") == var_alias and dim["type"]["class"] == "enum":
            for el, it in zip(dim["type"]["elements"], items):
                if it.get("no_id"):
                    el["value"].pop("id", None)


def build(case):
    """-> dict(resp, arrays={side: (items, mr_ins)}, sides, ndim)"""
    rng = random.Random(case["seed"])
    layout, n, idpat = case["layout"], case["n"], case["idpat"]

    def cat(alias, k=None):
        if case.get("ncat"):        # enough rows for sorts by different items to differ
            return gen.gen_var(rng, "cat", alias, n=k or case["ncat"], allow_missing=False)
        return gen.gen_var(rng, "cat", alias, n=k or rng.randint(2, 4), allow_missing=True, min_valid=2)

    def arr(kind, alias, n_ins=0):
        items = make_items(n, idpat, alias, n_ins, sv_style=case.get("sv", "pad") if n_ins else "pad",
                           all_derived=bool(case.get("all_derived")) and bool(n_ins))
        v = gen.Var(kind, alias, cats=copy.deepcopy(gen.MR_CATS) if kind == "mr" else gen.gen_cats(rng, 3, True, "some", 2),
                    items=[{"id": it["id"], "alias": it["alias"], "subvar_id": it["subvar_id"], "name": it["name"]}
                           for it in items])
        return v, items

    arrays = {}
    post = []           # (apparent dim alias, items) for MR-insertion post-processing
    if layout == "numarr_x_cat":
        return build_numarr(case, rng)
    if layout in ("mr_x_cat", "mrins_x_cat"):
        v, items = arr("mr", "m", 1 if layout.startswith("mrins") else 0)
        vars_ = [v, cat("c")]
        arrays["rows_dimension"] = (items, layout.startswith("mrins"))
    elif layout in ("cat_x_mr", "cat_x_mrins"):
        v, items = arr("mr", "m", 1 if layout.endswith("mrins") else 0)
        vars_ = [cat("c"), v]
        arrays["columns_dimension"] = (items, layout.endswith("mrins"))
    elif layout == "mr_x_mr":
        v1, it1 = arr("mr", "m")
        items2 = make_items(rng.randint(2, 3), rng.choice(["one", "sparse"]), "q")
        v2 = gen.Var("mr", "q", cats=copy.deepcopy(gen.MR_CATS),
                     items=[{k: it[k] for k in ("id", "alias", "subvar_id", "name")} for it in items2])
        vars_ = [v1, v2]
        arrays["rows_dimension"] = (it1, False)
        arrays["columns_dimension"] = (items2, False)
    elif layout == "ca_x_cat":
        v, items = arr("ca", "k")
        vars_ = [v]
        arrays["rows_dimension"] = (items, False)
    elif layout == "cat_x_ca":
        v, items = arr("ca", "k")
        v.ca_transposed = True
        vars_ = [v]
        arrays["columns_dimension"] = (items, False)
    elif layout == "mr":
        v, items = arr("mr", "m")
        vars_ = [v]
        arrays["rows_dimension"] = (items, False)
    elif layout == "cat_x_mr_x_cat":
        v, items = arr("mr", "m")
        vars_ = [cat("t", 2), v, cat("c")]
        arrays["rows_dimension"] = (items, False)
    elif layout == "mr_x_cat_x_mr":
        v0 = gen.gen_var(rng, "mr", "t", n=2)
        v, items = arr("mr", "m")
        vars_ = [v0, cat("c"), v]
        arrays["columns_dimension"] = (items, False)
    else:
        raise common.HarnessFault("layout %r" % layout)
    survey = gen.gen_survey(rng, vars_, n_resp=rng.randint(25, 45), weighted=rng.random() < 0.5, skew=False)
    resp = gen.cube_response(vars_, survey, True)
    # MR insertions: mark derived items + view insertions on BOTH dimension dicts of the MR variable
    for side, (items, mr_ins) in arrays.items():
        if mr_ins:
            add_mr_insertions(resp, "m", items)
    return {"resp": resp, "arrays": arrays}


def build_numarr(case, rng):
    n = case["n"]
    # sub-variable ids in NON-ascending payload order (distinct random strings): the dimension must keep payload order
    svids = rng.sample(["0001", "0002", "0003", "0004", "0009", "000a", "S1", "S2", "b7", "a3"], n)
    if svids == sorted(svids):
        svids = svids[::-1] if n > 1 else svids
    items = [{"id": i, "alias": "na_%c" % chr(97 + i), "subvar_id": svids[i], "name": "Num %d" % i,
              "anchor": False, "derived": False} for i in range(n)]
    cvar = gen.gen_var(rng, "cat", "g", n=rng.randint(2, 3), allow_missing=False)
    nc = len(cvar.cats)
    refs = {"alias": "numarr", "name": "Numarr",
            "subreferences": [{"alias": it["alias"], "name": it["name"]} for it in items]}
    meta = {"references": refs, "derived": True,
            "type": {"integer": False, "class": "numeric", "missing_rules": {}, "missing_reasons": {"No Data": -1},
                     "subvariables": [it["subvar_id"] for it in items]}}
    means = [rng.choice([0.5, 1, 1.5, 2, 2.25, 3, 4.5, 5, 7, 8.75]) + i for i in range(nc * n)]
    valid = [rng.randint(1, 6) for _ in range(nc * n)]
    counts = [rng.randint(3, 9) for _ in range(nc)]
    result = {"dimensions": cvar.dimension_dicts(), "missing": 0, "n": sum(counts), "counts": counts,
              "element": "crunch:cube",
              "measures": {"valid_count_unweighted": {"data": valid, "n_missing": 0, "metadata": copy.deepcopy(meta)},
                           "mean": {"data": means, "n_missing": 0, "metadata": copy.deepcopy(meta)}}}
    return {"resp": {"query": {}, "result": result}, "arrays": {"rows_dimension": (items, False)}}


def spell(items, k, cls):
    it = items[k]
    eids = [x["id"] for x in items]
    if cls == "alias":
        return it["alias"]
    if cls == "subvar":
        return it["alias"] if it.get("no_id") else it["subvar_id"]
    if cls == "int":
        return it["id"]
    if cls == "str":
        return str(it["id"])
    if cls == "posint":
        return k if k not in eids else it["id"]
    return str(k) if k not in eids else str(it["id"])


def other(side):
    return "columns_dimension" if side == "rows_dimension" else "rows_dimension"


def plan(case, built):
    """-> (side, slot, perm, direction) : deterministic in the case"""
    rng = random.Random(case["seed"] ^ 0x5bd1)
    sides = sorted(built["arrays"])
    side = rng.choice(sides)
    items, _ = built["arrays"][side]
    n = len(items)
    k = case["k"] % n
    slot = case["slot"]
    if case["layout"] == "mr" and slot == "opposing":
        slot = "explicit"
    if case["layout"] == "numarr_x_cat" and slot == "opposing":
        slot = "fixed"
    perm = list(range(n))
    rng.shuffle(perm)
    if perm == list(range(n)) and n > 1:
        perm = perm[1:] + perm[:1]
    if rng.random() < 0.4 and n > 2:
        perm = perm[:-1]                      # partial explicit order
    insertion = slot == "opposing" and built["arrays"][side][1] and side == "columns_dimension" and rng.random() < 0.6
    if insertion:
        k = 0                                  # the derived (inserted) item
    return {"side": side, "slot": slot, "k": k, "perm": perm, "k2": (k + 1) % n,
            "direction": rng.choice(["ascending", "descending"]), "insertion": insertion}


def transforms_for(case, built, pl, cls, stale, resolver=None):
    """the case's transform with every item reference written in spelling class `cls`; `resolver(i, cls)` may
    override what is written for item i (used to write the alias the MODEL resolves that spelling to)"""
    side, slot, k = pl["side"], pl["slot"], pl["k"]
    items, _ = built["arrays"][side]
    ref = (lambda i: spell(items, i, cls)) if resolver is None else (lambda i: resolver(i, cls))  # noqa
    t = {}
    dimt = {}
    if slot in ("hide", "mixed"):
        dimt.setdefault("elements", {})[ref(k)] = {"hide": True}
    if slot in ("rename", "mixed"):
        dimt.setdefault("elements", {})[ref(pl["k2"])] = {"name": "Renamed"}
    if slot in ("explicit", "mixed"):
        ids = [ref(i) for i in pl["perm"]]
        if stale:
            ids = ["zz"] + ids[:1] + [999] + ids[1:] + ["", "1.0"]
        dimt["order"] = {"type": "explicit", "element_ids": ids}
    if slot == "fixed":
        top, bottom = [ref(k)], [ref(pl["k2"])] if pl["k2"] != k else []
        if stale:
            top = ["zz"] + top
            bottom = bottom + [999, "-7"]
        dimt["order"] = {"type": "label", "direction": pl["direction"], "fixed": {"top": top, "bottom": bottom}}
    if stale and "elements" in dimt:
        dimt["elements"]["zz"] = {"hide": True}
        dimt["elements"]["999"] = {"name": "nobody"}
    if dimt:
        t[side] = dimt
    if slot == "opposing":
        o = other(side)
        if pl["insertion"]:
            order = {"type": "opposing_insertion", "insertion_id": ref(k), "measure": "count_unweighted",
                     "direction": pl["direction"]}
        else:
            meas = "col_percent" if o == "rows_dimension" else "row_percent"
            order = {"type": "opposing_element", "element_id": ref(k), "measure": meas, "direction": pl["direction"]}
        if stale:
            order["fixed"] = {"top": [424242], "bottom": ["zz"]}
        t[o] = {"order": order}
    return t


def observe(resp, transforms):
    """labels / order / values of every partition; exceptions become values"""
    from cr.cube.cube import Cube
    out = []
    try:
        cube = Cube(resp, transforms=transforms)
        parts = cube.partitions
    except Exception as e:  # noqa
        return [{"raises": type(e).__name__, "where": "partitions"}]
    for p in parts:
        o = {}
        names = ["row_labels", "counts", "unweighted_counts"]
        if type(p).__name__ == "_Slice":
            names += ["column_labels", "row_proportions", "column_proportions", "rows_margin", "columns_margin"]
            if cube.available_measures and any(m.value == "mean" for m in cube.available_measures):
                names += ["means"]
        else:
            names += ["table_proportions"]
        for nm in names:
            o[nm] = common.call_impl(lambda: getattr(p, nm))
        o["row_order"] = common.call_impl(lambda: p.row_order())
        if type(p).__name__ == "_Slice":
            o["column_order"] = common.call_impl(lambda: p.column_order())
        out.append(o)
    return out


def raised(obs):
    for i, o in enumerate(obs):
        for k, v in o.items():
            if isinstance(v, dict) and "raises" in v:
                return "partition %d .%s raises %s" % (i, k, v["raises"])
        if "raises" in o:
            return "%s raises %s" % (o.get("where"), o["raises"])
    return None


def lean_ops(case):
    built = build(case)
    pl = plan(case, built)
    items, mr_ins = built["arrays"][pl["side"]]
    dim = lean_dim(items, mr_ins)
    refs = [spell(items, i, c) for i in range(len(items)) for c in SPELLS]
    # the alias-spelled dimension transforms, for the spec view
    t = transforms_for(case, built, pl, "alias", False)
    x = sc.model_xf(t.get(pl["side"], {}))
    return [{"op": "translate", "dim": dim, "refs": refs}, {"op": "shim_transforms", "dim": dim, "xf": x}]


def F(kind, locus, detail):
    return {"kind": kind, "locus": locus, "detail": detail[:900]}


def evaluate(case, louts, ctx):
    built = build(case)
    pl = plan(case, built)
    side, slot, k = pl["side"], pl["slot"], pl["k"]
    items, mr_ins = built["arrays"][side]
    n = len(items)
    findings = []
    ctx.count("api:%s" % case["layout"])
    ctx.count("api-slot:%s" % slot)
    tout, sout = louts
    if not tout["nocollision"]:
        return evaluate_colliding(case, built, pl, tout, ctx)
    # spec: every spelling of item i denotes item i
    specs = tout["spec"]
    for j, s in enumerate(specs):
        if s != {"item": j // len(SPELLS)}:
            raise common.HarnessFault("spec resolver: spelling %d of %r resolves to %r" % (j, items, s))
    sslot = slot + ("-insertion" if pl["insertion"] else "")
    where = "%s.%s" % (sslot, "rows" if side == "rows_dimension" else "columns")
    desc = "layout=%s n=%d idpat=%s items=%s slot=%s item=%d side=%s" % (
        case["layout"], n, case["idpat"], json.dumps([(it["id"], it["alias"], it["subvar_id"]) for it in items]), sslot, k, side)
    base = observe(copy.deepcopy(built["resp"]), {})
    r = raised(base)
    if r:
        return [F("spec", "api.baseline-raises", "%s: the cube WITHOUT transforms fails: %s" % (desc, r))], None
    t_alias = transforms_for(case, built, pl, "alias", False)
    o_alias = observe(copy.deepcopy(built["resp"]), copy.deepcopy(t_alias))
    r = raised(o_alias)
    if r:
        findings.append(F("spec", "api.%s.raises" % where, "%s transforms=%s: %s" % (desc, json.dumps(t_alias), r)))
        return findings, None
    effect = not common.deep_close(o_alias, base)[0]
    ctx.count("api-effect:%s" % effect)
    # spellings agree
    for cls in SPELLS[1:]:
        t = transforms_for(case, built, pl, cls, False)
        if t == t_alias:
            continue
        o = observe(copy.deepcopy(built["resp"]), copy.deepcopy(t))
        r = raised(o)
        if r:
            findings.append(F("spec", "api.%s.raises" % where, "%s spelling=%s transforms=%s: %s" % (desc, cls, json.dumps(t), r)))
            continue
        ok, path = common.deep_close(o, o_alias)
        if not ok:
            findings.append(F("spec", "api.%s.spelling" % where,
                              "%s: spelling class %s gives different output than alias at %s; transforms=%s vs %s" %
                              (desc, cls, path, json.dumps(t), json.dumps(t_alias))))
    # predicted effect of the alias spelling (Lean spec view)
    findings += check_effect(case, built, pl, base, o_alias, sout, desc, where)
    # unmatched references change nothing (every partition: the transforms dict is shared and re-shimmed)
    if case.get("stale"):
        for cls in ("alias", "str"):
            t = transforms_for(case, built, pl, cls, True)
            o = observe(copy.deepcopy(built["resp"]), copy.deepcopy(t))
            r = raised(o)
            if r:
                loc = "api.reshim-raises" if "partition 0" not in r and len(o) > 1 else "api.%s.unmatched-raises" % where
                findings.append(F("spec", loc, "%s spelling=%s transforms=%s: %s (unmatched references must be ignored)" %
                                  (desc, cls, json.dumps(t), r)))
                continue
            ok, path = common.deep_close(o, o_alias)
            if not ok:
                findings.append(F("spec", "api.%s.unmatched-changes" % where, "%s: adding unmatched references changes output at %s; %s" %
                                  (desc, path, json.dumps(t))))
    key = (case["layout"], n, case["idpat"], sslot, side, k, bool(case.get("stale"))) if effect else None
    return findings, key


def evaluate_colliding(case, built, pl, tout, ctx):
    """dimensions with colliding spellings (real MR-insertion payloads: decimal sub-variable ids shifted against the
    renumbered element ids): the statement leaves the colliding strings open, so the reference is the MODEL: writing a
    reference in any spelling must give the output of writing the alias the Lean cascade resolves it to."""
    side, slot, k = pl["side"], pl["slot"], pl["k"]
    items, mr_ins = built["arrays"][side]
    n = len(items)
    sslot = slot + ("-insertion" if pl["insertion"] else "")
    where = "%s.%s" % (sslot, "rows" if side == "rows_dimension" else "columns")
    desc = "layout=%s n=%d idpat=%s items=%s mr_ins=%s slot=%s item=%d side=%s" % (
        case["layout"], n, case["idpat"], json.dumps([(it["id"], it["alias"], it["subvar_id"], it["anchor"], it["derived"]) for it in items]),
        mr_ins, sslot, k, side)
    ctx.count("api-colliding:%s" % case["layout"])
    model = {}
    for i in range(n):
        for j, c in enumerate(SPELLS):
            model[(i, c)] = tout["model"][i * len(SPELLS) + j]
    findings = []
    base = observe(copy.deepcopy(built["resp"]), {})
    r = raised(base)
    if r:
        return [F("spec", "api.baseline-raises", "%s: the cube WITHOUT transforms fails: %s" % (desc, r))], None
    effect = False
    for cls in SPELLS:
        t = transforms_for(case, built, pl, cls, False)
        tm = transforms_for(case, built, pl, cls, False,
                            resolver=lambda i, c: model[(i, c)] if model[(i, c)] is not None else "zz-unmatched")
        if t == tm:
            continue
        o, om = observe(copy.deepcopy(built["resp"]), copy.deepcopy(t)), observe(copy.deepcopy(built["resp"]), copy.deepcopy(tm))
        rr = raised(o)
        if rr:
            findings.append(F("spec", "api.%s.raises" % where, "%s spelling=%s transforms=%s: %s" % (desc, cls, json.dumps(t), rr)))
            continue
        effect = effect or not common.deep_close(om, base)[0]
        ok, path = common.deep_close(o, om)
        if not ok:
            findings.append(F("model", "api.%s.model-resolution" % where,
                              "%s: transforms %s give a different output (at %s) than %s, in which every reference is "
                              "replaced by the alias the modelled cascade resolves it to" % (desc, json.dumps(t), path, json.dumps(tm))))
    key = ("colliding", case["layout"], n, case["idpat"], sslot, side, k) if effect else None
    return findings, key


def labels_of(obs, side):
    return [o["row_labels" if side == "rows_dimension" else "column_labels"] for o in obs]


def check_effect(case, built, pl, base, o_alias, sout, desc, where):
    findings = []
    side, slot, k = pl["side"], pl["slot"], pl["k"]
    items, _ = built["arrays"][side]
    if case["layout"] in ("ca_x_cat", "cat_x_ca") or case["layout"].startswith("mr_x_cat_x") or case["layout"] == "mr":
        pass
    names = [it["name"] for it in items]
    for bl, al in zip(labels_of(base, side), labels_of(o_alias, side)):
        if not isinstance(bl, list) or not isinstance(al, list):
            continue
        if sorted(bl) != sorted(names):
            continue        # the dimension shown differs (e.g. CA as 0th): no prediction
        exp = list(bl)
        spec = sout["spec"]
        if slot in ("hide", "mixed", "rename"):
            xf = spec["xforms"]
            if xf is None:
                continue
            exp = [(x["name"] if x["name"] is not None else nm) for nm, x in zip(names, xf)]
            hidden = [i for i, x in enumerate(xf) if x["hide"] is True]
        else:
            hidden = []
        if slot in ("explicit", "mixed"):
            order = spec["order"]
            # derived items are placed by their anchors (C07): compare the non-derived ones only
            got = [l for l in al if l in [exp[i] for i in order]]
            want = [exp[i] for i in order if i not in hidden]
            if got != want:
                findings.append(F("spec", "api.%s.effect" % where, "%s: labels %r, statement gives %r" % (desc, al, want)))
            continue
        if slot == "fixed":
            top = [exp[i] for i in spec["top"]]
            bottom = [exp[i] for i in spec["bottom"]]
            if al[:len(top)] != top or (bottom and al[-len(bottom):] != bottom):
                findings.append(F("spec", "api.%s.effect" % where, "%s: labels %r, fixed top %r bottom %r" % (desc, al, top, bottom)))
            continue
        if slot in ("hide", "rename"):
            want = [e for i, e in enumerate(exp) if i not in hidden]
            if al != want:
                findings.append(F("spec", "api.%s.effect" % where, "%s: labels %r, statement gives %r" % (desc, al, want)))
    return findings


# ---------------------------------------------------------------------------------------
# non-array dimensions: element transforms / order ids keyed by id, str(id) and (datetime) value


def keys_case(rng):
    return {"t": "keys", "kind": rng.choice(["cat", "datetime", "datetime", "text"]), "seed": rng.randrange(1 << 30),
            "side": rng.choice(["rows_dimension", "columns_dimension"]), "slot": rng.choice(["hide", "rename", "explicit", "fixed"])}


def eval_keys(case, ctx):
    rng = random.Random(case["seed"])
    kind = case["kind"]
    v = gen.gen_var(rng, kind, "k", n=rng.randint(2, 4), allow_missing=True, min_valid=2)
    w = gen.gen_var(rng, "cat", "w", n=rng.randint(2, 3), allow_missing=False)
    vars_ = [v, w] if case["side"] == "rows_dimension" else [w, v]
    survey = gen.gen_survey(rng, vars_, n_resp=rng.randint(15, 35), weighted=False, skew=False)
    resp = gen.cube_response(vars_, survey, False)
    dd = [d for d in resp["result"]["dimensions"] if d["references"]["alias"] == "k"][0]
    if kind == "cat":
        els = [(c["id"], None) for c in dd["type"]["categories"] if not c["missing"]]
    else:
        els = [(e["id"], e["value"]) for e in dd["type"]["elements"] if not e["missing"]]
    k = rng.randrange(len(els))
    k2 = (k + 1) % len(els)
    perm = list(range(len(els)))
    rng.shuffle(perm)

    def spellings(i):
        out = [("int", els[i][0]), ("str", str(els[i][0]))]
        if kind == "datetime":
            out.append(("value", els[i][1]))
        return out

    def transforms(cls):
        def ref(i):
            d = dict(spellings(i))
            return d.get(cls, d["int"])
        slot = case["slot"]
        if slot == "hide":
            t = {"elements": {ref(k): {"hide": True}}}
        elif slot == "rename":
            t = {"elements": {ref(k): {"name": "Renamed"}}}
        elif slot == "explicit":
            t = {"order": {"type": "explicit", "element_ids": [ref(i) for i in perm]}}
        else:
            t = {"order": {"type": "label", "direction": "ascending", "fixed": {"top": [ref(k)], "bottom": [ref(k2)] if k2 != k else []}}}
        return {case["side"]: t}
    findings = []
    classes = [c for c, _ in spellings(k)]
    # JSON transforms have string keys; explicit / fixed id lists of a NON-shimmed dimension are compared as they are
    if kind != "datetime" and case["slot"] in ("explicit", "fixed"):
        classes = ["int"]
    base = observe(copy.deepcopy(resp), {})
    ref_obs = observe(copy.deepcopy(resp), transforms("int"))
    r = raised(ref_obs)
    desc = "kind=%s side=%s slot=%s elements=%s item=%d" % (kind, case["side"], case["slot"], els, k)
    if r:
        return [F("spec", "keys.%s.raises" % kind, "%s: %s" % (desc, r))], None
    effect = not common.deep_close(ref_obs, base)[0]
    if case["slot"] in ("hide", "rename") and not effect:
        findings.append(F("spec", "keys.%s.no-effect" % kind, "%s: %s by int id has no effect" % (desc, case["slot"])))
    for cls in classes[1:]:
        o = observe(copy.deepcopy(resp), transforms(cls))
        r = raised(o)
        if r:
            findings.append(F("spec", "keys.%s.raises" % kind, "%s spelling=%s: %s" % (desc, cls, r)))
            continue
        ok, path = common.deep_close(o, ref_obs)
        if not ok:
            findings.append(F("spec", "keys.%s.%s-spelling" % (kind, cls),
                              "%s: reference written as %s gives different output than as int id at %s (%s vs %s)" %
                              (desc, cls, path, json.dumps(transforms(cls)), json.dumps(transforms("int")))))
    ctx.count("keys:%s:%s" % (kind, case["slot"]))
    return findings, (("keys", kind, case["slot"], case["side"]) if effect else None)
