"""C19 (metadata) — rename / fill / hide keyed by any spelling of the same array item.

kind "spec": re-spelling every element-transform key of an array dimension (alias <-> sub-variable id <-> int element id
<-> decimal element id; a stale key by another stale key) changes NO output: orders, labels, codes, aliases, fills,
hidden_idxs; and the labels / fills / hidden flags are those of `MetaSpec.entryFor` (Lean driver, in c05_meta / c09_meta).
kind "model": as in c05_meta.
"""
import copy
import random

import common
from props import _meta_common as mc
from props import _slice_common as sc

PROPERTY = "C19"
LEAN_MODULE = "CrCube.Props.C19_Meta"
THEOREMS = [
    "CrCube.C19.rebuild_keys_factor",
    "CrCube.C19.spellings_same_metadata",
    "CrCube.C19.entry_eq_spec",
    "CrCube.C19.cat_int_or_str",
]
RULE = ("the c05_meta generator restricted to cases with an array dimension (mr / ca) among the partition's dimensions; "
        "every key re-spelled at random (seeded per case); non-trivial = at least one key was re-spelled; distinct = "
        "(kinds, transforms, re-spelling)")
ASSUMPTIONS = ["generated items share no spelling (NoCollision of Props/C19 holds by construction of gen.gen_items)"]


def generate(ctx):
    out = []
    tries = 0
    want = ctx.n(50, 1200)
    while len(out) < want and tries < 20 * want:
        tries += 1
        c = mc.gen_case(ctx.rng)
        pd, _ = mc.part_dims(c)
        if any(axis == "items" and c["transforms"].get(key, {}).get("elements") for key, raw, v, axis in pd):
            c["respell_seed"] = ctx.rng.randrange(1 << 30)
            out.append(c)
    return out


lean_ops = mc.lean_ops


def respell(case):
    rng = random.Random(case.get("respell_seed", 0))
    tr = copy.deepcopy(case["transforms"])
    pd, _ = mc.part_dims(case)
    n = 0
    for key, raw, v, axis in pd:
        td = tr.get(key, {})
        if axis != "items" or td.get("elements_key") or not td.get("elements"):
            continue
        specs = mc.element_specs(v, axis)
        eids = [it["id"] for it in v.items]
        # two DIFFERENT keys of one dict naming the same item (e.g. '10', position 3 and '0020' all meaning item v0_d) carry conflicting
        # entries whose precedence is an accident of dict order, which re-spelling changes: an ambiguous input, nothing is demanded of it
        # (found by the thorough tier, 1 case in 19 650)
        targets = []
        for k0, _x in td["elements"]:
            h0 = [i for i, s_ in enumerate(specs) if any(type(k0) is type(x) and k0 == x for x in s_["spell"])]
            if len(h0) == 1:
                targets.append(h0[0])
            elif not h0:
                ai = k0 if isinstance(k0, int) and not isinstance(k0, bool) else (
                    int(k0) if isinstance(k0, str) and k0.lstrip("-").isdigit() else None)
                if ai is not None and 0 <= ai < len(specs) and ai not in eids:
                    targets.append(ai)
        if len(set(targets)) != len(targets):
            return copy.deepcopy(case["transforms"]), 0
        for pair in td["elements"]:
            k = pair[0]
            hits = [s for s in specs if any(type(k) is type(x) and k == x for x in s["spell"])]
            if len(hits) == 1:
                others = [x for x in hits[0]["spell"] if not (type(k) is type(x) and k == x)]
                pair[0] = rng.choice(others)
                n += 1
            elif not hits:
                as_int = k if isinstance(k, int) else (int(k) if isinstance(k, str) and k.lstrip("-").isdigit() else None)
                if as_int is None or not (0 <= as_int < len(specs)) or as_int in eids:
                    if as_int is None or as_int not in eids:
                        pair[0] = rng.choice(["zz_stale", 7777, "7777"])
                        n += 1
        # a python dict cannot hold a key twice: a later duplicate overwrites the value at the first position
        merged = []
        for k, x in td["elements"]:
            for m in merged:
                if type(m[0]) is type(k) and m[0] == k:
                    m[1] = x
                    break
            else:
                merged.append([k, x])
        td["elements"] = merged
    return tr, n


def evaluate(case, louts, ctx):
    findings = []
    vars_, _ = sc.load(case)
    kinds = sc.kinds_of(vars_)
    tr = case["transforms"]
    cube_t = mc.model_check(case, louts, findings, ctx)
    tr2, n = respell(case)
    key = None
    if n:
        cube_2 = mc.make_cube(case, tr2)
        for k, (p, q) in enumerate(zip(cube_t.partitions, cube_2.partitions)):
            a1, s1 = mc.observe_part(p)
            a2, s2 = mc.observe_part(q)
            for j, (x, y) in enumerate(zip(a1, a2)):
                for f in x:
                    if not mc.close(x[f], y[f]):
                        findings.append({"kind": "spec", "locus": "meta.spelling.%s" % f,
                                         "detail": "k=%d axis %d: %s vs re-spelled %s | keys %r -> %r" % (
                                             k, j, mc.short(x[f]), mc.short(y[f]),
                                             [[a for a, _ in td.get("elements") or []] for td in tr.values()],
                                             [[a for a, _ in td.get("elements") or []] for td in tr2.values()])})
                d1 = mc.observe_dim(p._dimensions[j])
                d2 = mc.observe_dim(q._dimensions[j])
                for f in ("hidden_idxs", "labels", "fills"):
                    if not mc.close(d1[f], d2[f]):
                        findings.append({"kind": "spec", "locus": "meta.spelling.dim.%s" % f,
                                         "detail": "k=%d axis %d: %s vs re-spelled %s" % (k, j, mc.short(d1[f]), mc.short(d2[f]))})
        key = ("x".join(kinds), repr(tr), repr(tr2))
    return findings, key


describe = mc.describe
shrink_candidates = mc.shrink_candidates
