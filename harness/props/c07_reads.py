"""C07 extension — the order of ONE partition object must not depend on what else was read from it.

Family (seam `reads`): real cube responses (univariate strands incl. datetime rows, CA-as-0th strands,
2-D slices) with view / transform insertions, explicit orders, hide / prune, and a READ SEQUENCE executed
on one partition object: reads of `row_order()` / `column_order()` in both renderings interleaved with
reads of other public properties of the partition (the order-adjacent ones — fills, inserted / diff /
derived idxs, labels, codes, counts — and properties drawn from the WHOLE public surface of the
partition class).  Every order read is judged against the property statement (Lean `Spec/Order.lean`
through the `collate_anchored` op, exactly as the `api` seam of props/c07.py does), the two renderings
must name the same sequence, and a re-read must return what the first read returned.

The emptiness of elements (needed by the spec for `prune`) is taken from a SECOND partition built on a
pristine copy of the response, so the partition under test sees nothing but the read sequence.
"""
import copy
import inspect

import gen
import common
from props import _order_common as oc
from props import c07 as base

PROPERTY = "C07"
LEAN_MODULE = "CrCube.Props.C07"
THEOREMS = []
RULE = ("reads seam: 1-D strands (cat / text / binned / datetime / MR rows), CA-as-0th strands (any slice) and 2-D "
        "slices with 1-3 insertions per dimension (view and/or transform level), explicit orders, hide / prune; a "
        "read sequence of 2-7 steps on ONE partition: order reads (signed / 'ins_N') interleaved with reads of "
        "order-adjacent properties (fills, inserted / diff / derived idxs, labels, codes, aliases, counts, bases) "
        "and of properties drawn uniformly from the whole public surface of the partition class; a final read "
        "of both renderings is always judged. non-trivial = as in the api seam; distinct = distinct (orders, "
        "read names) key")
ASSUMPTIONS = ["reading a public property of a partition is an observation, never a command: it may not change what "
               "row_order()/column_order() return (the property speaks of THE order of a dimension)"]
TRUSTED_EXTRA = []

# order-adjacent public properties (filtered by what the partition class really has)
CORE = ["rows_dimension_fills", "columns_dimension_fills", "inserted_row_idxs", "inserted_column_idxs",
        "diff_row_idxs", "diff_column_idxs", "derived_row_idxs", "derived_column_idxs", "row_labels",
        "column_labels", "row_codes", "column_codes", "row_aliases", "column_aliases", "counts", "rows_base",
        "columns_base", "payload_order", "rows_dimension_numeric_values", "columns_dimension_numeric_values",
        "table_proportions", "unweighted_counts", "row_count", "shape", "is_empty", "rows_margin", "columns_margin"]

STRAND_KINDS = ["cat", "cat", "cat", "text", "binned", "datetime", "mr"]


# ---------------------------------------------------------------------------------------
# generation


def _dimdesc(rng, var):
    """like c07._gen_dimdesc but insertions nearly always present (the order has something to lose)."""
    if var.kind == "mr":
        return base._gen_dimdesc(rng, var)
    all_ids = [c["id"] for c in var.cats]
    ids = [c["id"] for c in var.cats if not c["missing"]]
    mode = rng.choice(["view", "tr", "both", "view", "tr", "none"])
    plain = var.kind == "datetime"      # element ids of a datetime dimension are its values: words only
    def ins(n):
        l = oc.rand_insertions(rng, ids, all_ids, n, bad=0.05)
        if plain:
            for i in l:
                if i["anchor"] not in ("top", "bottom", "TOP", "Bottom", None):
                    i["anchor"] = rng.choice(["top", "bottom", "TOP", None])
        return l
    view = ins(rng.randint(1, 3)) if mode in ("view", "both") else None
    tr = ins(rng.randint(1, 3)) if mode in ("tr", "both") else None
    if mode == "both" and view and rng.random() < 0.5:
        vids = [v for v in view if v["id"] is not None]
        rng.shuffle(vids)
        tr = [copy.deepcopy(v) for v in vids]
    order = None
    if rng.random() < 0.4:
        pool = all_ids + [max(all_ids) + 5]
        order = {"type": "explicit", "element_ids": [rng.choice(pool) for _ in range(rng.randint(0, len(ids) + 2))]}
    return {"view": view, "insertions": tr, "hide": [i for i in all_ids if rng.random() < 0.15],
            "hide_str": rng.random() < 0.3, "prune": rng.random() < 0.3, "order": order}


def _reads(rng):
    out = []
    for _ in range(rng.randint(1, 6)):
        r = rng.random()
        if r < 0.22:
            out.append(rng.choice(["signed", "bogus"]))
        elif r < 0.62:
            out.append({"p": rng.choice(CORE[:18])})
        else:
            out.append({"r": rng.randrange(10 ** 6)})
    if not any(isinstance(t, dict) for t in out):
        out.insert(rng.randrange(len(out) + 1), {"p": rng.choice(CORE[:8])})
    return out


def _gen_case(rng):
    shape = rng.choice(["strand", "strand", "ca0", "slice", "slice"])
    case = {"seam": "reads"}
    if shape == "ca0":
        v = gen.gen_var(rng, "ca", "v0", n=rng.randint(1, 3), ncat=rng.randint(2, 4))
        vars_ = [v]
        case["ca0"] = True
        case["slice"] = rng.randrange(len(v.items))
        dims = [_dimdesc(rng, gen.Var("cat", "v0", cats=v.cats))]
    else:
        nd = 1 if shape == "strand" else 2
        kinds = [rng.choice(STRAND_KINDS if nd == 1 else base.API_KINDS + ["datetime"]) for _ in range(nd)]
        vars_ = [gen.gen_var(rng, k, "v%d" % i, n=rng.randint(1, 4)) for i, k in enumerate(kinds)]
        dims = [_dimdesc(rng, v) for v in vars_]
    survey = gen.gen_survey(rng, vars_, n_resp=rng.choice([0, 3, 8, 20]), weighted=rng.random() < 0.5)
    case.update({"vars": [v.to_json() for v in vars_], "survey": gen.survey_to_json(survey), "dims": dims,
                 "reads": _reads(rng)})
    return case


def generate(ctx):
    return [_gen_case(ctx.rng) for _ in range(ctx.n(320, 6000))]


# ---------------------------------------------------------------------------------------
# the runner (shared with props/c07_idspell.py)


def _dt_values(dim_dict):
    """id -> value of the non-missing elements of an enum (datetime) dimension dict."""
    return {el["id"]: el["value"] for el in dim_dict["type"]["elements"] if not isinstance(el["value"], dict)}


def _spell_one(i, mode, values):
    if mode == "val":
        return values.get(i, i)
    if mode == "str":
        return str(i)
    return i


def spell_transforms(t, dim_dict, spell):
    """re-spell the canonical (integer cube-response id) references of a datetime dimension's transforms:
    order ids and hide keys as int / numeric string / datetime value (per occurrence), addends of
    insertions as datetime values (the only spelling `_Subtotal` knows on such a dimension)."""
    values = _dt_values(dim_dict)
    t = copy.deepcopy(t)
    om = spell.get("order") or ["int"]
    hm = spell.get("hide") or ["int"]
    o = t.get("order")
    if o and isinstance(o.get("element_ids"), list):
        o["element_ids"] = [_spell_one(i, om[k % len(om)], values) for k, i in enumerate(o["element_ids"])]
    if "elements" in t:
        new = {}
        for k, (key, val) in enumerate(t["elements"].items()):
            i = int(key) if isinstance(key, str) and key.lstrip("-").isdigit() else key
            new[_spell_one(i, hm[k % len(hm)], values)] = val
        t["elements"] = new
    return t


def _value_args(ins_list, values):
    out = []
    for d in ins_list:
        if isinstance(d, dict):
            d = copy.deepcopy(d)
            if "args" in d:
                d["args"] = [values.get(a, a) for a in d["args"]]
            kw = d.get("kwargs")
            if isinstance(kw, dict):
                for f in ("positive", "negative"):
                    if f in kw:
                        kw[f] = [values.get(a, a) for a in kw[f]]
        out.append(d)
    return out


def build(case):
    """(pristine response, transforms) of a reads / idspell case."""
    vars_ = [gen.Var.from_json(d) for d in case["vars"]]
    survey = gen.survey_from_json(case["survey"])
    resp = gen.cube_response(vars_, survey, True)
    dims = resp["result"]["dimensions"]
    transforms = {}
    if case.get("ca0"):
        targets = [(1, "rows_dimension", case["dims"][0], "cat", {})]
    else:
        targets, di = [], 0
        spells = case.get("spell") or [{} for _ in vars_]
        for v, dd, tk, sp in zip(vars_, case["dims"], ["rows_dimension", "columns_dimension"], spells):
            targets.append((di, tk, dd, v.kind, sp))
            di += len(v.dimension_dicts())
    for di, tk, dd, kind, sp in targets:
        values = _dt_values(dims[di]) if kind == "datetime" else None
        if dd.get("view") is not None:
            real = [oc.ins_real(k, i) for k, i in enumerate(dd["view"])]
            dims[di]["references"]["view"] = {"transform": {"insertions": _value_args(real, values) if values else real}}
        t = oc.dim_transforms(dd)
        if values is not None:
            if "insertions" in t:
                t["insertions"] = _value_args(t["insertions"], values)
            t = spell_transforms(t, dims[di], sp)
        transforms[tk] = t
    return resp, transforms


def public_properties(cls):
    from cr.cube.util import lazyproperty
    names = []
    for n in sorted(dir(cls)):
        if n.startswith("_"):
            continue
        try:
            a = inspect.getattr_static(cls, n)
        except AttributeError:
            continue
        if isinstance(a, (property, lazyproperty)):
            names.append(n)
    return names


_CACHE = {}


def observe(case):
    """run the read sequence of the case on ONE partition; same keys as c07._api_run plus `trace`."""
    key = id(case)
    if key in _CACHE and _CACHE[key][0] is case:
        return _CACHE[key][1]
    if len(_CACHE) > 30000:
        _CACHE.clear()
    from cr.cube.cube import Cube
    from cr.cube.enums import ORDER_FORMAT as OF
    out = {}
    try:
        resp, transforms = build(case)
        kw = {"cube_idx": 0} if case.get("ca0") else {}
        sl = case.get("slice", 0)
        # --- emptiness (for the spec) from a partition nobody else reads
        ref = Cube(copy.deepcopy(resp), transforms=copy.deepcopy(transforms), **kw).partitions[sl]
        two_d = ref.ndim == 2
        out["ndim"] = ref.ndim
        m = ref._measures
        if two_d:
            out["row_empties"] = common.call_impl(lambda: [int(i) for i, b in enumerate(m.rows_pruning_mask) if b])
            out["col_empties"] = common.call_impl(lambda: [int(i) for i, b in enumerate(m.columns_pruning_mask) if b])
        else:
            out["row_empties"] = common.call_impl(lambda: [int(i) for i, n in enumerate(m.pruning_base) if n == 0])
            out["col_empties"] = []
        # --- the partition under test
        part = Cube(copy.deepcopy(resp), transforms=copy.deepcopy(transforms), **kw).partitions[sl]
        pool = public_properties(type(part))
        trace = []

        def read_order(fmt):
            f = None if fmt == "signed" else OF.BOGUS_IDS
            args = () if f is None else (f,)
            r = {"row": oc.canon_order(common.call_impl(lambda: part.row_order(*args)))}
            if two_d:
                r["col"] = oc.canon_order(common.call_impl(lambda: part.column_order(*args)))
            return r

        for tok in list(case.get("reads") or []) + ["signed", "bogus"]:
            if isinstance(tok, str):
                trace.append([tok, read_order(tok)])
                continue
            name = tok["p"] if "p" in tok else pool[tok["r"] % len(pool)]
            if not hasattr(type(part), name):
                continue
            common.call_impl(lambda: getattr(part, name))
            trace.append([name, None])
        out["trace"] = trace
        last = {f: [r for t, r in trace if t == f][-1] for f in ("signed", "bogus")}
        out["row_signed"], out["row_bogus"] = last["signed"]["row"], last["bogus"]["row"]
        if two_d:
            out["col_signed"], out["col_bogus"] = last["signed"]["col"], last["bogus"]["col"]
            out["col_labels"] = common.call_impl(lambda: part.column_labels)
        out["row_labels"] = common.call_impl(lambda: part.row_labels)
        out["payload_order"] = oc.canon_order(common.call_impl(lambda: part.payload_order))
    except Exception as e:  # noqa
        out = {"raises": type(e).__name__, "msg": str(e)[:200]}
    _CACHE[key] = (case, out)
    return out


# ---------------------------------------------------------------------------------------
# lean ops / evaluation


def _elems_of(case, vars_):
    if case.get("ca0"):
        v = vars_[0]
        return [([{"id": c["id"], "missing": c["missing"], "name": c["name"]} for c in v.cats], "cat")]
    return [base._api_elems(v) for v in vars_]


def lean_ops(case):
    vars_ = [gen.Var.from_json(d) for d in case["vars"]]
    survey = gen.survey_from_json(case["survey"])
    any_array = any(v.is_array for v in vars_)
    lib = observe(case) if any_array else None
    ops = []
    for axis, ((elems, dtype), dd) in enumerate(zip(_elems_of(case, vars_), case["dims"])):
        if any_array:
            emp = lib.get("row_empties" if axis == 0 else "col_empties") if isinstance(lib, dict) else []
            if not isinstance(emp, list):
                emp = []
        else:
            emp = base._survey_empties(vars_, survey, axis)
        ops.extend(base._dim_ops(dd, elems, dtype, emp))
    return ops


def read_names(lib):
    return [t for t, _ in lib.get("trace", [])]


def trace_findings(lib, prefix):
    """a re-read of an order must return what the first read returned."""
    findings = []
    trace = lib.get("trace") or []
    for fmt in ("signed", "bogus"):
        seen = [(k, r) for k, (t, r) in enumerate(trace) if t == fmt]
        for (k0, r0), (k1, r1) in zip(seen, seen[1:]):
            for ax in r0:
                if r0[ax] != r1[ax]:
                    between = [t for t, _ in trace[k0 + 1:k1]]
                    findings.append({"kind": "spec", "locus": "%s.order.reread-differs.%s" % (prefix, fmt),
                                     "detail": "%s_order(%s) read %r, and after reading %r the same partition reads %r"
                                               % (ax, fmt, r0[ax], between, r1[ax])})
                    return findings
    return findings


def evaluate(case, louts, ctx):
    lib = observe(case)
    ctx.count("reads:%s" % ("ca0" if case.get("ca0") else "%dd" % len(case["vars"])))
    findings, key = base._eval_api(case, louts, ctx, lib=lib)
    names = read_names(lib) if isinstance(lib, dict) else []
    for f in findings:
        f["locus"] = "reads." + f["locus"]
        f["detail"] = "after reads %r on one partition: %s" % (names, f["detail"])
    if isinstance(lib, dict) and "trace" in lib:
        findings.extend(trace_findings(lib, "reads"))
        if any(isinstance(x, int) and x < 0 for x in lib.get("row_signed") or [] if not isinstance(lib.get("row_signed"), dict)):
            ctx.count("reads:with-subtotals")
    if key is not None:
        key = ("reads",) + tuple(key[1:]) + (tuple(names),)
    return findings, key


def describe(case):
    return {"seam": "reads", "ca0": bool(case.get("ca0")), "slice": case.get("slice", 0),
            "kinds": [v["kind"] for v in case["vars"]], "dims": case["dims"], "reads": case.get("reads"),
            "n_respondents": len(case["survey"])}


def shrink_candidates(case):
    reads = case.get("reads") or []
    for i in range(len(reads)):
        yield dict(case, reads=reads[:i] + reads[i + 1:])
    for c in base.shrink_candidates(case):
        yield c
