"""C15 (numeric-array layouts) — share of sum of numeric arrays grouped by TWO raw dimensions.

A numeric-array measure arrives laid out (group dimensions ..., subvariables); the library prepends a NUM_ARRAY
pseudo-dimension and re-reads the flat data through `Dimensions.dimension_order / shape` + `Cube._valid_idxs`.
`c15.py` covers the ungrouped strand and NUM_ARRAY x CAT (one slice).  This module adds every 3-"all-dimension" layout:

  catxcat   NUM_ARRAY x CAT-like x CAT-like  (cat, cat_date, text, binned, datetime): ONE SLICE PER SUBVARIABLE, rows AND
            columns carry insertions (view / transform level) -- the only numeric-array sums with row subtotals;
  ca        NUM_ARRAY x CA_SUBVAR x CA_CAT: one slice per subvariable, CA items on the rows, insertions on the columns;
  mr        NUM_ARRAY x MR (MR_SUBVAR x MR_CAT): one slice, subvariables on the rows, the MR's selected plane on the columns.

Group dimensions have different extents, missing categories / items in the middle, single-element dimensions, as many
subvariables as categories; sums are dyadic rationals with NaN cells; the sum measure's metadata is drawn as in c15.py.

Checks (through c15._check_matrix_shares, for EVERY slice): spec — each cell of row/column/total_share_sum against the
Lean Spec table `cell / nansum over base rows|cols|cells` of the table assembled from the BACK-END cells
`data[(a, b, k)]` (so a wrong axis permutation, a wrong plane or a wrong slice is a wrong share), base shares add to 1,
subtotal shares additive; model — the four blocks of each measure and `sums` against the Lean model.
"""
from fractions import Fraction
import copy

import gen
import common
from props import _subtotals as S
from props import c04 as C4
from props import c15 as C15

PROPERTY = "C15"
LEAN_MODULE = "CrCube.Props.C15_NumArr"
THEOREMS = [
    "CrCube.C15.numarr3d_sums_cell",
    "CrCube.C15.numarr3d_row_share",
    "CrCube.C15.numarr3d_col_share",
    "CrCube.C15.numarr3d_total_share",
    "CrCube.C15.numarr3d_reversed_order_counterexample",
]
RULE = ("hand-built numeric-array sum responses over two raw group dimensions: cat-like x cat-like (one slice per "
        "subvariable, 0-3 insertions on rows and on columns), CA (items x categories) and MR (selected plane); extents 1-4 "
        "(unequal and equal), missing categories / items anywhere, 1-4 subvariables, dyadic sums with NaN cells, sum "
        "metadata drawn; every slice checked.  Non-trivial = a slice with an inserted row / column of finite non-zero "
        "share, or >= 2 slices with >= 2 distinct finite shares each; distinct = (layout, subtotals, rounded shares)")
ASSUMPTIONS = [
    "the back end lays numeric-array measures out row-major as (group dimensions ..., subvariables) -- the layout of "
    "the real fixtures (tests/fixtures/numeric_arrays) for 1 and 2 group axes, and the one `Dimensions.dimension_order` "
    "(1, 2, 0) spells for a NUM_ARRAY x CAT x CAT cube",
]
EXHAUSTIVE = False

CATLIKE = ["cat", "cat", "cat", "cat_date", "text", "binned", "datetime"]


# ---------------------------------------------------------------------------------------------
# generation


def _ins_for(rng, v):
    if v.kind in ("cat", "cat_date"):
        return C4._ins_for(rng, v)
    return {"view": None, "transform": None}


def gen_case(rng, layout=None):
    layout = layout or rng.choice(["catxcat", "catxcat", "catxcat", "ca", "mr"])
    nsub = rng.choice([1, 2, 2, 3, 3, 4])
    case = {"mode": "numarr3", "layout": layout, "nsub": nsub}
    if layout == "catxcat":
        na = rng.randint(1, 4)
        nb = rng.choice([na, rng.randint(1, 4), nsub])
        a = gen.gen_var(rng, rng.choice(CATLIKE), "ga", n=na)
        b = gen.gen_var(rng, rng.choice(CATLIKE), "gb", n=nb)
        vars_ = [a, b]
        case["ins"] = {"rows": _ins_for(rng, a), "cols": _ins_for(rng, b)}
    elif layout == "ca":
        v = gen.gen_var(rng, "ca", "gc", n=rng.randint(1, 3), ncat=rng.randint(2, 4))
        if len(v.items) >= 2 and rng.random() < 0.3:
            v.items[rng.randrange(len(v.items))]["missing"] = True
        vars_ = [v]
        cv = gen.Var("cat", v.alias, cats=copy.deepcopy(v.cats))
        case["ins"] = {"rows": {"view": None, "transform": None}, "cols": C4._ins_for(rng, cv)}
    else:
        v = gen.gen_var(rng, "mr", "gm", n=rng.randint(1, 4), missing_items=True)
        vars_ = [v]
        case["ins"] = {"rows": {"view": None, "transform": None}, "cols": {"view": None, "transform": None}}
    case["vars"] = [v.to_json() for v in vars_]
    ncell = 1
    for s in gen.raw_shape(vars_):
        ncell *= s
    case["sums"] = C15._sum_data(rng, ncell * nsub, nan_p=rng.choice([0.0, 0.1, 0.1]))
    case["valid_counts"] = [rng.randint(0, 6) for _ in range(ncell * nsub)]
    case["counts"] = [rng.randint(0, 9) for _ in range(ncell)]
    case["sum_meta"] = C15.gen_sum_meta(rng)
    case["with_mean"] = rng.random() < 0.25
    return case


def generate(ctx):
    return [gen_case(ctx.rng) for _ in range(ctx.n(160, 2500))]


# ---------------------------------------------------------------------------------------------
# the case as the two sides see it


def _vars(case):
    return [gen.Var.from_json(d) for d in case["vars"]]


def _geometry(case):
    """(n slices, row raw positions, col raw positions, cell -> flat index of the back-end data) per layout.

    flat index of back-end cell (a, b, k) of a (A, B, nsub) row-major layout = (a * B + b) * nsub + k."""
    vars_ = _vars(case)
    nsub = case["nsub"]
    if case["layout"] == "catxcat":
        a, b = vars_
        B = len(b.cats)
        rows, cols = a.valid_cat_pos, b.valid_cat_pos
        return nsub, rows, cols, (lambda k, i, j: (rows[i] * B + cols[j]) * nsub + k)
    v = vars_[0]
    if case["layout"] == "ca":
        B = len(v.cats)
        rows, cols = v.valid_item_pos, v.valid_cat_pos
        return nsub, rows, cols, (lambda k, i, j: (rows[i] * B + cols[j]) * nsub + k)
    cols = v.valid_item_pos
    B = len(v.cats)              # selected, other, missing: the sums of an MR axis are its SELECTED plane (0)
    return 1, list(range(nsub)), cols, (lambda k, i, j: (cols[j] * B + 0) * nsub + i)


def _lean_dims(case):
    vars_ = _vars(case)
    ins = case["ins"]
    if case["layout"] == "catxcat":
        a, b = vars_
        ra = S.lean_dim(a, ins["rows"].get("view"), ins["rows"].get("transform")) if a.kind in ("cat", "cat_date") \
            else S.lean_dim(a, None, None, catdate=False)
        cb = S.lean_dim(b, ins["cols"].get("view"), ins["cols"].get("transform")) if b.kind in ("cat", "cat_date") \
            else S.lean_dim(b, None, None, catdate=False)
        return ra, cb
    if case["layout"] == "ca":
        v = vars_[0]
        cv = gen.Var("cat", v.alias, cats=copy.deepcopy(v.cats))
        return S.lean_dim(None, None, None), S.lean_dim(cv, ins["cols"].get("view"), ins["cols"].get("transform"))
    return S.lean_dim(None, None, None), S.lean_dim(None, None, None)


def lean_ops(case):
    nsl, rows, cols, at = _geometry(case)
    rd, cd = _lean_dims(case)
    ops = []
    for k in range(nsl):
        m = [["nan" if case["sums"][at(k, i, j)] is None else case["sums"][at(k, i, j)] for j in range(len(cols))]
             for i in range(len(rows))]
        ops.append({"op": "share_sum", "v": m, "nr": len(rows), "nc": len(cols), "rows": rd, "cols": cd})
    return ops


def response(case):
    vars_ = _vars(case)
    nsub = case["nsub"]
    subs = ["S%d" % (i + 1) for i in range(nsub)]
    meta = {"derived": True,
            "references": {"alias": "na", "name": "NA", "uniform_basis": False,
                           "subreferences": [{"alias": "na_%d" % i, "name": "na %d" % i} for i in range(nsub)]},
            "type": {"integer": False, "subvariables": subs, "class": "numeric",
                     "missing_reasons": {"No Data": -1}, "missing_rules": {}}}
    sums = [S.flat_num(None if x is None else Fraction(x)) for x in case["sums"]]
    dims = []
    for v in vars_:
        dims.extend(v.dimension_dicts())
    # view-level insertions sit on the dimension that carries the categories
    slots = {"catxcat": (("rows", 0), ("cols", 1)), "ca": (("cols", 1),), "mr": ()}[case["layout"]]
    for key, di in slots:
        view = (case["ins"].get(key) or {}).get("view")
        if view is not None:
            dims[di]["references"]["view"] = {"transform": {"insertions": copy.deepcopy(view)}}
    measures = {"valid_count_unweighted": {"data": list(case["valid_counts"]), "n_missing": 0,
                                           "metadata": copy.deepcopy(meta)},
                "sum": {"data": sums, "n_missing": 0, "metadata": copy.deepcopy(meta)}}
    if case.get("with_mean"):
        # a second numeric measure of the same layout (values irrelevant to the shares)
        measures["mean"] = {"data": [S.flat_num(None if x is None else Fraction(x) / 2) for x in case["sums"]],
                            "n_missing": 0, "metadata": copy.deepcopy(meta)}
    result = {"counts": list(case["counts"]), "dimensions": dims, "element": "crunch:cube", "missing": 0,
              "n": sum(case["counts"]), "measures": measures}
    return C15.apply_sum_meta({"query": {}, "result": result}, case.get("sum_meta"))


def transforms(case):
    tr = {}
    for key, tkey in (("rows", "rows_dimension"), ("cols", "columns_dimension")):
        t = (case["ins"].get(key) or {}).get("transform")
        if t is not None:
            tr[tkey] = {"insertions": copy.deepcopy(t)}
    return tr


# ---------------------------------------------------------------------------------------------


def evaluate(case, louts, ctx):
    from cr.cube.cube import Cube
    findings = []
    nsl, rows, cols, _ = _geometry(case)
    ctx.count("layout:" + case["layout"])
    try:
        cube = Cube(response(case), transforms=transforms(case))
        parts = list(cube.partitions)
    except Exception as e:  # noqa
        C15._finding(findings, "model", "api.numarr3-construction", "%s: %s" % (type(e).__name__, e))
        return findings, None
    if len(parts) != nsl:
        C15._finding(findings, "spec", "numarr3.partitions",
                     "%d partitions for %d subvariables (layout %s)" % (len(parts), case["nsub"], case["layout"]))
        return findings, None
    nr, nc = len(rows), len(cols)
    keys = []
    plain = 0
    for k, part in enumerate(parts):
        L = louts[k]
        try:
            V = C4._SliceView(part)
        except Exception as e:  # noqa
            C15._finding(findings, "model", "api.numarr3-slice", "%s: %s" % (type(e).__name__, e))
            return findings, None
        if C4._impl_subs(V.dims[0]) != L["row_subtotals"] or C4._impl_subs(V.dims[1]) != L["col_subtotals"]:
            C15._finding(findings, "model", "seam.dim.subtotals", "slice %d: impl %r / %r model %r / %r" % (
                k, C4._impl_subs(V.dims[0]), C4._impl_subs(V.dims[1]), L["row_subtotals"], L["col_subtotals"]))
            return findings, None
        nrs, ncs = len(L["row_subtotals"]), len(L["col_subtotals"])
        key_vals = []
        f_k = []
        C15._check_matrix_shares(f_k, ctx, V.get, V.ro, V.co, nr, nc, nrs, ncs, L, L["row_subtotals"],
                                 L["col_subtotals"], key_vals,
                                 lambda name, part=part: C15.common_call(lambda: getattr(part._measures, name).blocks))
        for f in f_k:
            # the locus names the layout: a violation here is one of reading the numeric-array data, not of a block formula
            f["locus"] = "numarr3.%s.%s" % (case["layout"], f["locus"].split(".", 1)[1] if f["locus"].startswith("slice.")
                                            else f["locus"])
            f["detail"] = ("slice %d of %d (%s, %dx%d): " % (k, nsl, case["layout"], nr, nc) + f["detail"])[:700]
        findings.extend(f_k)
        if key_vals:
            keys.append((k, repr(L["row_subtotals"]), repr(L["col_subtotals"]), tuple(sorted(set(key_vals)))[:4]))
        else:
            sh = common.call_impl(lambda: part.total_share_sum)
            if isinstance(sh, list):
                vals = {round(x, 6) for row in sh for x in row if C15._fin(x) and x != 0}
                if len(vals) >= 2:
                    plain += 1
    ctx.count("n_slices:%d" % nsl)
    key = None
    if keys:
        key = (case["layout"], tuple(keys))
    elif plain >= 2 or (plain and case["layout"] == "mr"):
        key = (case["layout"], "plain", tuple(case["sums"][:8]))
    return findings, key


def describe(case):
    return {"mode": "numarr3", "layout": case["layout"], "nsub": case["nsub"],
            "kinds": [d["kind"] for d in case["vars"]], "sums": case["sums"][:8], "insertions": case["ins"],
            "sum_meta": case.get("sum_meta")}


def shrink_candidates(case):
    if case.get("sum_meta"):
        yield dict(case, sum_meta=None)
    if case.get("with_mean"):
        yield dict(case, with_mean=False)
    for key in ("rows", "cols"):
        for lvl in ("view", "transform"):
            lst = (case["ins"].get(key) or {}).get(lvl)
            if lst:
                for i in range(len(lst)):
                    c = copy.deepcopy(case)
                    c["ins"][key][lvl] = lst[:i] + lst[i + 1:]
                    yield c
    if any(x is None for x in case["sums"]):
        yield dict(case, sums=["1" if x is None else x for x in case["sums"]])
