"""C10 — transposing the response transposes the result.

Oracle: the library itself on the exchanged response (B x A, data transposed, insertions and
transforms mirrored), paired property by paired property; plus the Lean theorem at the level of
counts / bases / proportions.
"""
import copy
import itertools
from fractions import Fraction
import common
import gen
from props import _slice_common as sc

PROPERTY = "C10"
LEAN_MODULE = "CrCube.Props.C10"
THEOREMS = [
    "CrCube.C10.counts_transpose",
    "CrCube.C10.rowBases_transpose",
    "CrCube.C10.columnBases_transpose",
    "CrCube.C10.tableBases_transpose",
    "CrCube.C10.rowProportions_transpose",
    "CrCube.C10.columnProportions_transpose",
    "CrCube.C10.tableProportions_transpose",
    "CrCube.C10.shape_transpose",
]
RULE = ("random 2-D designs over every pairing of cat/cat_date/datetime/text/mr (and a CA variable rendered subvar-first vs "
        "category-first) x random surveys x mirrored insertions (incl. differences), hide/prune/explicit-order transforms "
        "and a population; every paired public property of A x B is compared with its counterpart of B x A; non-trivial = "
        "non-square or asymmetric count matrix with >=2 distinct values; distinct = (kinds, transforms, counts)")
ASSUMPTIONS = ["direction-specific measures with no twin (column index, pairwise tests, smoothing) are excluded by the property itself"]

def _transpose_flat(flat, shapeA, shapeB):
    """flat row-major data of a tensor with axes (A..., B...) -> axes (B..., A...)"""
    shape = shapeA + shapeB
    out = []
    for ixb in itertools.product(*[range(n) for n in shapeB]):
        for ixa in itertools.product(*[range(n) for n in shapeA]):
            pos = 0
            for n, i in zip(shape, list(ixa) + list(ixb)):
                pos = pos * n + i
            out.append(flat[pos])
    return out


def _mirror_dim(d):
    """a dimension's transforms as they read on the exchanged axis: direction-specific measure keywords swap"""
    d = copy.deepcopy(d)
    o = d.get("order")
    if isinstance(o, dict) and isinstance(o.get("measure"), str):
        m = o["measure"]
        if m.startswith("row_"):
            o["measure"] = "col_" + m[4:]
        elif m.startswith("col_") and m != "col_index":
            o["measure"] = "row_" + m[4:]
    return d


def _payload(data):
    return [{"?": -1} if x is None else gen.num(Fraction(x)) for x in data]


PAIRED = [  # (row-direction property, column-direction property)
    ("row_proportions", "column_proportions"), ("row_percentages", "column_percentages"),
    ("row_std_err", "column_std_err"), ("row_std_dev", "column_std_dev"),
    ("row_proportion_variances", "column_proportion_variances"), ("row_proportions_moe", "column_proportions_moe"),
    ("row_weighted_bases", "column_weighted_bases"), ("row_unweighted_bases", "column_unweighted_bases"),
    ("rows_margin", "columns_margin"), ("rows_base", "columns_base"),
    ("rows_margin_proportion", "columns_margin_proportion"),
    ("rows_scale_mean", "columns_scale_mean"), ("rows_scale_median", "columns_scale_median"),
    ("rows_scale_mean_stddev", "columns_scale_mean_stddev"), ("rows_scale_mean_stderr", "columns_scale_mean_stderr"),
    ("rows_scale_mean_margin", "columns_scale_mean_margin"), ("rows_scale_median_margin", "columns_scale_median_margin"),
    ("row_labels", "column_labels"), ("row_codes", "column_codes"), ("row_aliases", "column_aliases"),
    ("inserted_row_idxs", "inserted_column_idxs"), ("diff_row_idxs", "diff_column_idxs"),
    ("derived_row_idxs", "derived_column_idxs"),
    ("rows_dimension_type", "columns_dimension_type"), ("rows_dimension_name", "columns_dimension_name"),
    ("row_share_sum", "column_share_sum"),
]
FREE = ["counts", "unweighted_counts", "table_proportions", "table_percentages", "table_std_err", "table_std_dev",
        "table_proportion_variances", "table_proportions_moe", "zscores", "pvals", "population_counts",
        "population_counts_moe", "table_weighted_bases", "table_unweighted_bases", "table_base", "table_margin",
        "table_base_range", "table_margin_range", "is_empty", "total_share_sum", "sums", "means", "stddev"]

KINDS = ["cat", "cat", "mr", "mr", "cat_date", "datetime", "text"]


def _empty_mat(x):
    return isinstance(x, list) and (len(x) == 0 or all(isinstance(r, list) and len(r) == 0 for r in x))


def _tr(x):
    """transpose a 2-D nested list; leave 1-D / scalars / None / raises alone."""
    if isinstance(x, list) and x and all(isinstance(r, list) for r in x):
        n = len(x[0])
        if all(len(r) == n for r in x):
            return [[x[i][j] for i in range(len(x))] for j in range(n)]
    if isinstance(x, list) and len(x) == 0:
        return x
    return x


def gen_dim_transforms(rng, v, with_order=True):
    d = {}
    keys = sc.element_keys(v)
    if rng.random() < 0.4:
        d["prune"] = True
    el = {}
    for kx in keys:
        if rng.random() < 0.2:
            el[str(kx)] = {"hide": True}
    if el:
        d["elements"] = el
    ins = sc.gen_insertions(rng, v, allow_diff=True, allow_hide=False)
    if ins and rng.random() < 0.7:
        d["insertions"] = ins
    if with_order and rng.random() < 0.35 and not v.is_array and v.kind != "datetime":
        ids = list(keys)
        rng.shuffle(ids)
        d["order"] = {"type": "explicit", "element_ids": ids[: rng.randint(0, len(ids))]}
    return d


def gen_case(rng):
    from props import c05
    fam = rng.choice(["two", "two", "two", "ca", "sortins"])
    if fam == "sortins":
        # both axes carry several subtotals and one axis is sorted by an insertion of the other
        case = sc.gen_case(rng, kinds=["cat", rng.choice(["cat", "cat_date"])], max_n=4)
        vars_, _ = sc.load(case)
        dims = []
        for v in vars_:
            ids = sc.valid_ids(v)
            ins = []
            for n in range(rng.randint(2, 3)):
                ins.append({"function": "subtotal", "args": rng.sample(ids, rng.randint(1, len(ids))),
                            "anchor": rng.choice(["top", "bottom"] + ids), "name": "S%d" % n, "id": n + 1})
            dims.append({"insertions": ins})
        # view-level insertions on the variable as well: same subtotals in ANOTHER order (and one extra), so an id
        # sits at different positions in the view list and in the effective (transform) list
        if rng.random() < 0.6:
            for vi, v in enumerate(vars_):
                vl = copy.deepcopy(dims[vi]["insertions"])
                rng.shuffle(vl)
                if rng.random() < 0.5:
                    vl.insert(0, {"function": "subtotal", "args": [sc.valid_ids(v)[0]], "anchor": "top", "name": "V", "id": 9})
                d = v.to_json()
                d["view_insertions"] = vl
                case["vars"][vi] = d
        which = rng.randrange(2)
        dims[which]["order"] = {"type": "opposing_insertion", "insertion_id": rng.choice([1, 2]),
                                "measure": rng.choice(["count_weighted", "table_percent", "col_percent", "row_percent",
                                                       "count_unweighted", "z_score"]),
                                "direction": rng.choice(["ascending", "descending"])}
        case["transforms"] = {"rows_dimension": dims[0], "columns_dimension": dims[1]}
        fam = "two"
    elif fam == "two":
        kinds = [rng.choice(KINDS), rng.choice(KINDS)]
        case = sc.gen_case(rng, kinds=kinds, max_n=4)
        vars_, _ = sc.load(case)
        if rng.random() < 0.5:
            case["transforms"] = {"rows_dimension": gen_dim_transforms(rng, vars_[0]),
                                  "columns_dimension": gen_dim_transforms(rng, vars_[1])}
        else:
            # the full transform grammar of C05 (all sort-by-value orders, fixed lists, hidden insertions)
            cd = c05.gen_dim(rng, vars_[1], vars_[0], [])
            rd = c05.gen_dim(rng, vars_[0], vars_[1], cd.get("insertions", []))
            if "order" in cd and cd["order"].get("type") == "opposing_insertion":
                cd["order"]["insertion_id"] = rng.choice([i.get("id") for i in rd.get("insertions", [])] + [78])
            # keep only order types the library implements for BOTH axes (sorting columns by a marginal is not
            # implemented - the spec is silently ignored - and sorting rows by a derived array column has no column twin)
            for d in (rd, cd):
                o = d.get("order")
                if o and (o.get("type") == "marginal" or
                          (o.get("type") == "opposing_insertion" and (vars_[0].is_array or vars_[1].is_array))):
                    del d["order"]
            # F9 (known): with BOTH dimensions categorical-date the population proportion is the row proportion on
            # either orientation, so a sort keyed on population estimates is not mirrored; keep that known finding
            # confined to its own loci by not sorting on those keys there
            # the column index is direction-specific with no row twin (excluded by the property itself)
            for d in (rd, cd):
                o = d.get("order")
                if o and o.get("measure") == "col_index":
                    o["measure"] = "count_unweighted"
            if vars_[0].kind == "cat_date" and vars_[1].kind == "cat_date":
                for d in (rd, cd):
                    o = d.get("order")
                    if o and o.get("measure") in ("population", "population_moe"):
                        o["measure"] = "count_weighted"
            case["transforms"] = {"rows_dimension": rd, "columns_dimension": cd}
        if rng.random() < 0.4:
            tot = 1
            for x in gen.raw_shape(vars_):
                tot *= x
            case["measures"] = {
                name: [gen.frac_str(Fraction(rng.randint(0, 60), rng.choice([1, 2, 4]))) if rng.random() < 0.9 else None
                       for _ in range(tot)]
                for name in rng.sample(["mean", "sum", "stddev"], rng.randint(1, 2))}
    else:
        case = sc.gen_case(rng, kinds=["ca"], max_n=3)
        case["transforms"] = {}
    case["family"] = fam
    case["population"] = rng.choice([0, 1000, 5000])
    return case


def generate(ctx):
    return [gen_case(ctx.rng) for _ in range(ctx.n(150, 2500))]


def lean_ops(case):
    return []


def evaluate(case, louts, ctx):
    from cr.cube.cube import Cube
    vars_, survey = sc.load(case)
    fam = case["family"]
    findings = []
    w = case["weighted"]
    pop = case.get("population", 0)
    tr = case.get("transforms", {})
    if fam == "two":
        A, B = vars_
        meas = case.get("measures") or {}
        shA, shB = gen.raw_shape([A]), gen.raw_shape([B])
        respAB = gen.cube_response([A, B], survey, w, extra_measures={n: _payload(d) for n, d in meas.items()} or None)
        respBA = gen.cube_response([B, A], [(wt, [ans[1], ans[0]]) for wt, ans in survey], w,
                                   extra_measures={n: _payload(_transpose_flat(d, shA, shB)) for n, d in meas.items()} or None)
        trAB = copy.deepcopy(tr)
        trBA = {"rows_dimension": _mirror_dim(tr.get("columns_dimension", {})),
                "columns_dimension": _mirror_dim(tr.get("rows_dimension", {}))}
        kinds = [A.kind, B.kind]
    else:
        ca = vars_[0]
        caT = gen.Var.from_json(dict(ca.to_json(), ca_transposed=True))
        respAB = gen.cube_response([ca], survey, w)
        respBA = gen.cube_response([caT], survey, w)
        trAB, trBA = {}, {}
        kinds = ["ca"]
    ctx.count("kinds:" + "x".join(kinds))
    msz = case.get("min_base", 0) or 0
    s1 = Cube(respAB, transforms=trAB, population=pop, mask_size=msz).partitions[0]
    s2 = Cube(respBA, transforms=trBA, population=pop, mask_size=msz).partitions[0]
    # the minimum-base-size masks mirror too (incl. on subtotal differences, whose base is undefined one way)
    for (x, xn, y, yn) in ((s1, "row_mask", s2, "column_mask"), (s1, "column_mask", s2, "row_mask"),
                           (s1, "table_mask", s2, "table_mask")):
        a = common.call_impl(lambda: getattr(x.min_base_size_mask, xn))
        b = common.call_impl(lambda: getattr(y.min_base_size_mask, yn))
        ok, where = common.deep_close(a, _tr(b))
        if not ok and _empty_mat(a) and _empty_mat(b):
            ok = True
        if not ok:
            findings.append({"kind": "spec", "locus": "pair.min_base_size_mask.%s~%s" % (xn, yn),
                             "detail": "mask_size=%s %s of A x B vs %s of B x A%s | %s vs %s" % (msz, xn, yn, where, sc._short(a), sc._short(b))})
    both_catdate = kinds == ["cat_date", "cat_date"]
    for rname, cname in PAIRED:
        for (x, xn, y, yn) in ((s1, rname, s2, cname), (s1, cname, s2, rname)):
            a = common.call_impl(lambda: getattr(x, xn))
            b = common.call_impl(lambda: getattr(y, yn))
            ok, where = common.deep_close(a, _tr(b))
            if not ok and _empty_mat(a) and _empty_mat(b):
                ok = True
            if not ok:
                locus = "pair.%s~%s" % (rname, cname)
                if "margin_proportion" in rname and (tr.get("rows_dimension", {}).get("insertions") or tr.get("columns_dimension", {}).get("insertions")
                                                     or tr.get("rows_dimension", {}).get("order") or tr.get("columns_dimension", {}).get("order")
                                                     or tr.get("rows_dimension", {}).get("elements") or tr.get("columns_dimension", {}).get("elements")
                                                     or tr.get("rows_dimension", {}).get("prune") or tr.get("columns_dimension", {}).get("prune")) \
                        and ("mr" in kinds):
                    locus += ".array-crossing-with-transforms"
                findings.append({"kind": "spec", "locus": locus,
                                 "detail": "%s of A x B vs %s of B x A%s | %s vs %s" % (xn, yn, where, sc._short(a), sc._short(b))})
    for name in FREE:
        a = common.call_impl(lambda: getattr(s1, name))
        b = common.call_impl(lambda: getattr(s2, name))
        ok, where = common.deep_close(a, _tr(b))
        if not ok and _empty_mat(a) and _empty_mat(b):
            ok = True
        if not ok:
            locus = "free.%s" % name
            if both_catdate and name.startswith("population"):
                locus += ".catdate-x-catdate"
            findings.append({"kind": "spec", "locus": locus,
                             "detail": "A x B vs (B x A)^T%s | %s vs %s" % (where, sc._short(a), sc._short(b))})
    ro1 = common.call_impl(lambda: s1.row_order())
    co2 = common.call_impl(lambda: s2.column_order())
    sc.compare(findings, "spec", "pair.row_order~column_order", ro1, co2, "")
    sc.compare(findings, "spec", "pair.column_order~row_order", common.call_impl(lambda: s1.column_order()),
               common.call_impl(lambda: s2.row_order()), "")
    sh1 = common.call_impl(lambda: s1.shape)
    sh2 = common.call_impl(lambda: s2.shape)
    if isinstance(sh1, list) and isinstance(sh2, list) and sh1 != sh2[::-1]:
        findings.append({"kind": "spec", "locus": "pair.shape", "detail": "%r vs %r" % (sh1, sh2)})
    c = common.call_impl(lambda: s1.counts)
    key = None
    if isinstance(c, list) and c and isinstance(c[0], list):
        vals = {x for r in c for x in r if isinstance(x, (int, float)) and x == x}
        if len(vals) >= 2 and c != _tr(c):
            key = ("x".join(kinds), repr(tr), repr(c))
    return findings, key


def describe(case):
    d = sc.describe(case)
    d["family"] = case["family"]
    d["transforms"] = case.get("transforms")
    return d


shrink_candidates = sc.shrink_candidates
