"""C06 — partitioning of 3-D and multi-cube responses restricts to the right respondents.

Oracle: the library itself on the RESTRICTED survey (2-D cube of the respondents who belong to
table element k) — every numeric measure of partition k must equal the 2-D analysis — plus the
Lean model/spec for counts and bases (partition_restricts is the theorem).
"""
import copy
from fractions import Fraction
import gen
import common
from props import _slice_common as sc

PROPERTY = "C06"
LEAN_MODULE = "CrCube.Props.C06"
THEOREMS = [
    "CrCube.C06.partitions_count",
    "CrCube.C06.partitions_count_2d",
    "CrCube.C06.partition_restricts",
    "CrCube.C06.restrict_specCount",
    "CrCube.C06.partition_ca_item",
    "CrCube.C06.partitions_count_ca",
    "CrCube.C06.partition_restricts_ca",
]
RULE = ("five case families: 3-D cubes (table cat-like/MR x rows x cols over cat/mr), CA x X (table = CA items), "
        "multi-cube sets (tabbook style), CA-as-0th sets, numeric-measure sets (inflation); each partition compared, "
        "measure by measure, with the library's own analysis of the restricted survey, and with the Lean model/spec; "
        "non-trivial = >=2 partitions with different counts; distinct = (family, kinds, counts of first partition)")
ASSUMPTIONS = ["Spec.cubeOf is the back end's tabulation (checked per case in C01)"]

SLICE_MEASURES = [
    "counts", "unweighted_counts", "row_weighted_bases", "column_weighted_bases", "table_weighted_bases",
    "row_unweighted_bases", "column_unweighted_bases", "table_unweighted_bases", "rows_margin", "columns_margin",
    "rows_base", "columns_base", "table_margin", "table_base", "table_base_range", "table_margin_range",
    "row_proportions", "column_proportions", "table_proportions", "rows_margin_proportion",
    "columns_margin_proportion", "row_std_err", "column_std_err", "table_std_err", "zscores", "pvals",
    "column_index", "columns_scale_mean", "rows_scale_mean", "columns_scale_median", "rows_scale_median",
    "population_counts", "shape", "row_labels", "column_labels", "is_empty",
]
STRAND_MEASURES = ["counts", "unweighted_counts", "weighted_bases", "unweighted_bases", "table_proportions",
                   "table_base_range", "table_margin_range", "scale_mean", "scale_median", "scale_std_dev",
                   "row_labels", "shape", "is_empty", "table_proportion_stderrs", "population_counts"]

T_KINDS = ["cat", "cat", "mr", "cat_date", "text", "datetime"]
RC_KINDS = ["cat", "cat", "mr", "cat_date"]


def gen_case(rng):
    fam = rng.choice(["3d", "3d", "3d", "ca3d", "cubeset", "ca0th", "numeric", "single", "augment"])
    if fam == "3d":
        kinds = [rng.choice(T_KINDS), rng.choice(RC_KINDS), rng.choice(RC_KINDS)]
        case = sc.gen_case(rng, kinds=kinds, max_n=3, derived_items=rng.random() < 0.4)
        if rng.random() < 0.5:
            vs = [gen.Var.from_json(d) for d in case["vars"]]
            tot = 1
            for x in gen.raw_shape(vs):
                tot *= x
            case["measures"] = {
                name: [gen.frac_str(Fraction(rng.randint(-30, 90), rng.choice([1, 2, 4]))) if rng.random() < 0.9 else None
                       for _ in range(tot)]
                for name in rng.sample(["mean", "sum", "stddev", "median"], rng.randint(1, 3))}
    elif fam == "ca3d":
        case = sc.gen_case(rng, kinds=["ca", rng.choice(RC_KINDS)], max_n=3)
    elif fam == "cubeset":
        ncubes = rng.randint(2, 3)
        kinds = [rng.choice(T_KINDS)] + [rng.choice(RC_KINDS) for _ in range(ncubes)]
        case = sc.gen_case(rng, kinds=kinds, max_n=3)
    elif fam == "ca0th":
        case = sc.gen_case(rng, kinds=["ca", rng.choice(RC_KINDS)], max_n=3)
        if rng.random() < 0.6:
            # transforms on the categories (the ROWS of every strand / slice of a CA-as-0th set) that differ from the
            # ones filed under the columns dimension
            ca = gen.Var.from_json(case["vars"][0])
            cv = gen.Var("cat", ca.alias, cats=copy.deepcopy(ca.cats))
            ids = sc.valid_ids(cv)

            def dim(p_hide):
                d = {}
                el = {str(i): {"hide": True} for i in ids if rng.random() < p_hide}
                if el and len(el) < len(ids):
                    d["elements"] = el
                ins = sc.gen_insertions(rng, cv, allow_diff=False, allow_hide=False)
                if ins:
                    d["insertions"] = ins
                if rng.random() < 0.3 and ids:
                    l = list(ids)
                    rng.shuffle(l)
                    d["order"] = {"type": "explicit", "element_ids": l}
                return d
            case["ca0_transforms"] = {"rows": dim(0.3), "other": dim(0.4)}
    elif fam == "augment":
        # single-column filter cube with fewer rows than the summary cube: padded with zero rows
        n = rng.randint(2, 5)
        cats = [{"id": i, "missing": False, "name": "t%d" % i, "numeric_value": None} for i in range(n)]
        v = gen.Var("text", "v0", cats=cats)
        survey = gen.gen_survey(rng, [v], weighted=False)
        case = {"vars": [v.to_json()], "survey": gen.survey_to_json(survey), "weighted": False, "min_base": 0}
        present = [i for i in range(n) if rng.random() < 0.6] or [rng.randrange(n)]
        case["present"] = present
        tr = {}
        if rng.random() < 0.6:
            d = {}
            if rng.random() < 0.5:
                d["prune"] = True
            el = {str(c["name"]): {"hide": True} for c in cats if rng.random() < 0.25}
            if el:
                d["elements"] = el
            tr = {"rows_dimension": d}
        case["transforms"] = tr
    elif fam == "single":
        # a CubeSet of ONE response is that cube: same partitions (no CA-as-0th, no inflation)
        kinds = rng.choice([["ca"], ["ca", rng.choice(RC_KINDS)], [rng.choice(T_KINDS), rng.choice(RC_KINDS)],
                            [rng.choice(RC_KINDS)], [rng.choice(T_KINDS), rng.choice(RC_KINDS), rng.choice(RC_KINDS)]])
        case = sc.gen_case(rng, kinds=kinds, max_n=3)
    else:
        case = sc.gen_case(rng, kinds=[rng.choice(["cat", "cat", "mr"])], max_n=4)
        v = gen.Var.from_json(case["vars"][0])
        n = len(v.items) if v.is_array else len(v.cats)
        shape = gen.raw_shape([v])
        tot = 1
        for x in shape:
            tot *= x
        case["means"] = [gen.frac_str(Fraction(rng.randint(-20, 60), rng.choice([1, 2, 4]))) if rng.random() < 0.85 else None
                         for _ in range(tot)]
        case["mean0"] = gen.frac_str(Fraction(rng.randint(0, 99), 2))
    case["family"] = fam
    case["population"] = rng.choice([0, 1000, 12345])
    return case


def generate(ctx):
    return [gen_case(ctx.rng) for _ in range(ctx.n(120, 1500))]


def lean_ops(case):
    if case["family"] in ("3d",):
        vars_, survey = sc.load(case)
        if all(v.kind != "ca" for v in vars_):
            return sc.api_ops(case)
    return []


def _restrict(vars_, survey, k):
    """survey restricted to members of element k of vars_[0] (drop that answer)."""
    T = vars_[0]
    out = []
    if T.is_array:
        sel = 0  # raw position of 'selected' for MR; for CA handled elsewhere
        kk = T.valid_item_pos[k]
        for w, ans in survey:
            if ans[0][kk] == sel:
                out.append((w, ans[1:]))
    else:
        pos = T.valid_cat_pos[k]
        for w, ans in survey:
            if ans[0][0] == pos:
                out.append((w, ans[1:]))
    return out


def _payload(data):
    return [{"?": -1} if x is None else gen.num(Fraction(x)) for x in data]


def _subtensor(flat, shape, prefix):
    """flat row-major data of tensor[prefix...]"""
    import itertools
    rest = shape[len(prefix):]
    out = []
    for ix in itertools.product(*[range(n) for n in rest]):
        full = list(prefix) + list(ix)
        pos = 0
        for n, i in zip(shape, full):
            pos = pos * n + i
        out.append(flat[pos])
    return out


NUMERIC = {"mean": "means", "sum": "sums", "stddev": "stddev", "median": "medians"}


def _get(obj, name):
    def thunk():
        v = getattr(obj, name)
        return v() if callable(v) else v
    return common.call_impl(thunk)


def _compare_parts(findings, locus_prefix, a, b, measures, what):
    for name in measures:
        va, vb = _get(a, name), _get(b, name)
        ok, where = common.deep_close(va, vb)
        if not ok:
            findings.append({"kind": "spec", "locus": "%s.%s" % (locus_prefix, name),
                             "detail": "%s: partition%s | partition=%s restricted=%s" % (what, where, sc._short(va), sc._short(vb))})


def evaluate(case, louts, ctx):
    from cr.cube.cube import Cube, CubeSet
    vars_, survey = sc.load(case)
    fam = case["family"]
    ctx.count("family:" + fam)
    findings = []
    key = None
    pop = case.get("population", 0)
    w = case["weighted"]
    if fam == "3d":
        meas = case.get("measures") or {}
        resp = gen.cube_response(vars_, survey, w, extra_measures={n: _payload(d) for n, d in meas.items()} or None)
        cube = Cube(resp, population=pop)
        T = vars_[0]
        shape3 = gen.raw_shape(vars_)
        npart = len(T.valid_item_pos) if T.is_array else len(T.valid_cat_pos)
        parts = common.call_impl(lambda: len(cube.partitions))
        if parts != npart:
            return [{"kind": "spec", "locus": "npartitions", "detail": "%r != %r valid elements" % (parts, npart)}], None
        firsts = []
        for k in range(npart):
            rs = _restrict(vars_, survey, k)
            prefix = [T.valid_item_pos[k], 0] if T.is_array else [T.valid_cat_pos[k]]
            sub = {n: _payload(_subtensor(d, shape3, prefix)) for n, d in meas.items()}
            c2 = Cube(gen.cube_response(vars_[1:], rs, w, extra_measures=sub or None), population=pop)
            # population estimates scale by the table-restricted total in a 2-D cube but by the whole
            # 3-D total? -> both are proportions x population; compared only through proportions
            ms = [m for m in SLICE_MEASURES if m != "population_counts"]
            ms = ms + [NUMERIC[n] for n in meas]
            _compare_parts(findings, "partition3d", cube.partitions[k], c2.partitions[0], ms, "table element %d" % k)
            firsts.append(repr(_get(cube.partitions[k], "counts")))
            # names: "<table variable name>: <label of table element k>"; tab_label only for a CA table dimension
            if T.kind in ("cat", "cat_date", "mr", "text"):
                lab = (T.items[T.valid_item_pos[k]]["name"] if T.is_array else T.cats[T.valid_cat_pos[k]]["name"])
                sc.compare(findings, "spec", "partition3d.table_name", _get(cube.partitions[k], "table_name"),
                           "%s: %s" % (T.alias.upper(), lab), "k=%d" % k)
                sc.compare(findings, "spec", "partition3d.tab_label", _get(cube.partitions[k], "tab_label"), "", "k=%d" % k)
            if louts:
                api, spec = louts[2 * k], louts[2 * k + 1]
                sl = cube.partitions[k]
                pre = "" if w else "u"
                sc.compare(findings, "spec", "partition3d.counts.respondent-level", _get(sl, "counts"),
                           common.model_to_float(spec[pre + "counts"]), "k=%d" % k)
                sc.compare(findings, "spec", "partition3d.table_bases.respondent-level", _get(sl, "table_weighted_bases"),
                           common.model_to_float(spec[pre + "table_bases"]), "k=%d" % k)
                sc.compare(findings, "model", "seam.slice_api.counts", _get(sl, "counts"),
                           common.model_to_float(api["counts"]), "k=%d" % k)
        if len(set(firsts)) >= 2:
            key = (fam, tuple(v.kind for v in vars_), firsts[0])
    elif fam == "ca3d":
        ca, X = vars_
        resp = gen.cube_response(vars_, survey, w)
        cube = Cube(resp, population=pop)
        npart = len(ca.valid_item_pos)
        parts = common.call_impl(lambda: len(cube.partitions))
        if parts != npart:
            return [{"kind": "spec", "locus": "npartitions.ca", "detail": "%r != %r items" % (parts, npart)}], None
        firsts = []
        for k in range(npart):
            cv = gen.Var("cat", "cak", cats=copy.deepcopy(ca.cats))
            rs = [(wt, [[ans[0][ca.valid_item_pos[k]]], ans[1]]) for wt, ans in survey]
            c2 = Cube(gen.cube_response([cv, X], rs, w), population=pop)
            ms = [m for m in SLICE_MEASURES if m not in ("population_counts",)]
            _compare_parts(findings, "partition-ca-item", cube.partitions[k], c2.partitions[0], ms, "CA item %d" % k)
            item = ca.items[ca.valid_item_pos[k]]
            sc.compare(findings, "spec", "partition-ca-item.tab_label", _get(cube.partitions[k], "tab_label"), item["name"], "k=%d" % k)
            sc.compare(findings, "spec", "partition-ca-item.table_name", _get(cube.partitions[k], "table_name"),
                       "%s: %s" % (ca.alias.upper(), item["name"]), "k=%d" % k)
            firsts.append(repr(_get(cube.partitions[k], "counts")))
        if len(set(firsts)) >= 2:
            key = (fam, tuple(v.kind for v in vars_), firsts[0])
    elif fam == "augment":
        A = vars_[0]
        present = case["present"]
        # the filter keeps the respondents whose answer is among `present` (so absent rows have zero count)
        fsurvey = [(wt, ans) for wt, ans in survey if ans[0][0] in present]
        summary = gen.cube_response([A], survey, w)
        full = gen.cube_response([A], fsurvey, w)                   # what the augmented cube must equal
        sub = gen.Var.from_json(dict(A.to_json(), cats=[c for i, c in enumerate(A.cats) if i in present]))
        remap = {p: i for i, p in enumerate(present)}
        filt = gen.cube_response([sub], [(wt, [[remap[ans[0][0]]]]) for wt, ans in fsurvey], w)
        filt["result"]["is_single_col_cube"] = True
        # ids must stay the summary's position ids
        for el, p in zip(filt["result"]["dimensions"][0]["type"]["elements"], present):
            el["id"] = p
        tr = case.get("transforms") or {}
        cs = CubeSet([copy.deepcopy(summary), copy.deepcopy(filt)], [None, copy.deepcopy(tr)], pop, 0)
        ref = Cube(copy.deepcopy(full), transforms=copy.deepcopy(tr), population=pop).partitions[0]
        psets = common.call_impl(lambda: [len(ps) for ps in cs.partition_sets])
        if psets != [2]:
            findings.append({"kind": "spec", "locus": "augment.partition_sets.shape", "detail": repr(psets)})
        else:
            part = cs.partition_sets[0][1]
            _compare_parts(findings, "augment.partition", part, ref, STRAND_MEASURES + ["row_order", "population_counts_moe"],
                           "augmented single-column cube vs the zero-padded cube; transforms %r" % (tr,))
            key = (fam, tuple(present), repr(_get(ref, "counts")))
    elif fam == "single":
        resp = gen.cube_response(vars_, survey, w)
        cs = CubeSet([copy.deepcopy(resp)], [None], pop, 0)
        for attr in ("has_weighted_counts", "name", "is_ca_as_0th", "has_numeric_measures"):
            common.call_impl(lambda: getattr(cs, attr))
        ref = Cube(copy.deepcopy(resp), population=pop).partitions
        psets = common.call_impl(lambda: [len(ps) for ps in cs.partition_sets])
        if psets != [1] * len(ref):
            findings.append({"kind": "spec", "locus": "single-set.partition_sets.shape", "detail": "%r vs %d partitions of the cube" % (psets, len(ref))})
        else:
            for k, rp in enumerate(ref):
                part = cs.partition_sets[k][0]
                kinds_ = sc.kinds_of(vars_)
                ms = STRAND_MEASURES if len(kinds_) == 1 else [m for m in SLICE_MEASURES]
                if common.call_impl(lambda: part.ndim) != common.call_impl(lambda: rp.ndim):
                    findings.append({"kind": "spec", "locus": "single-set.partition.ndim", "detail": "partition %d" % k})
                    continue
                _compare_parts(findings, "single-set.partition", part, rp, ms, "partition %d" % k)
            key = (fam, tuple(v.kind for v in vars_), repr(_get(ref[0], "counts")))
    elif fam == "cubeset":
        A = vars_[0]
        resps = [gen.cube_response([A], [(wt, [ans[0]]) for wt, ans in survey], w)]
        for j in range(1, len(vars_)):
            resps.append(gen.cube_response([A, vars_[j]], [(wt, [ans[0], ans[j]]) for wt, ans in survey], w))
        cs = CubeSet(copy.deepcopy(resps), [None] * len(resps), pop, 0)
        psets = common.call_impl(lambda: len(cs.partition_sets))
        if psets != 1:
            findings.append({"kind": "spec", "locus": "cubeset.partition_sets.count", "detail": repr(psets)})
        else:
            pset = cs.partition_sets[0]
            if len(pset) != len(resps):
                findings.append({"kind": "spec", "locus": "cubeset.partition_sets.width", "detail": "%d" % len(pset)})
            else:
                for j, part in enumerate(pset):
                    ref = Cube(copy.deepcopy(resps[j]), population=pop).partitions[0]
                    ms = STRAND_MEASURES if j == 0 else SLICE_MEASURES
                    _compare_parts(findings, "cubeset.partition[%s]" % ("summary" if j == 0 else "crosstab"), part, ref, ms, "cube %d" % j)
                key = (fam, tuple(v.kind for v in vars_), repr(_get(pset[-1], "counts")))
    elif fam == "ca0th":
        ca, X = vars_
        r0 = gen.cube_response([ca], [(wt, [ans[0]]) for wt, ans in survey], w)
        r1 = gen.cube_response([ca, X], survey, w)
        ct = case.get("ca0_transforms")
        t0 = {"rows_dimension": copy.deepcopy(ct["rows"]), "columns_dimension": copy.deepcopy(ct["other"])} if ct else None
        t1 = {"rows_dimension": copy.deepcopy(ct["rows"])} if ct else None
        cs = CubeSet([copy.deepcopy(r0), copy.deepcopy(r1)], [copy.deepcopy(t0), copy.deepcopy(t1)], pop, 0)
        npart = len(ca.valid_item_pos)
        psets = common.call_impl(lambda: len(cs.partition_sets))
        if psets != npart:
            findings.append({"kind": "spec", "locus": "ca0th.partition_sets.count", "detail": "%r != %r" % (psets, npart)})
        else:
            firsts = []
            for k in range(npart):
                strand, sl = cs.partition_sets[k]
                cv = gen.Var("cat", ca.alias, cats=copy.deepcopy(ca.cats))
                kk = ca.valid_item_pos[k]
                uni = Cube(gen.cube_response([cv], [(wt, [[ans[0][kk]]]) for wt, ans in survey], w),
                           transforms=copy.deepcopy(t1), population=pop).partitions[0]
                ms = [m for m in STRAND_MEASURES]
                _compare_parts(findings, "ca0th.strand", strand, uni, ms, "sub-variable %d" % k)
                c2 = Cube(gen.cube_response([cv, X], [(wt, [[ans[0][kk]], ans[1]]) for wt, ans in survey], w),
                          transforms=copy.deepcopy(t1), population=pop)
                _compare_parts(findings, "ca0th.slice", sl, c2.partitions[0],
                               [m for m in SLICE_MEASURES if m != "population_counts"], "sub-variable %d" % k)
                firsts.append(repr(_get(strand, "counts")))
            if len(set(firsts)) >= 2:
                key = (fam, tuple(v.kind for v in vars_), firsts[0])
    else:  # numeric-measure rows: inflation
        X = vars_[0]
        means = [None if m is None else Fraction(m) for m in case["means"]]
        data = [{"?": -1} if m is None else gen.num(m) for m in means]
        n = len(survey)
        r0 = {"query": {}, "result": {"dimensions": [], "missing": 0, "element": "crunch:cube", "counts": [n], "n": n,
                                      "measures": {"count": {"data": [n], "n_missing": 0, "metadata": {}},
                                                   "mean": {"data": [gen.num(Fraction(case["mean0"]))], "n_missing": 0, "metadata": {}}}}}
        r1 = gen.cube_response([X], survey, w, extra_measures={"mean": data})
        plain = Cube(copy.deepcopy(r1), population=pop).partitions[0]
        cs = CubeSet([copy.deepcopy(r0), copy.deepcopy(r1)], [None, None], pop, 0)
        for attr in ("has_weighted_counts", "available_measures", "name", "has_numeric_measures", "population_fraction"):
            common.call_impl(lambda: getattr(cs, attr))      # reading set-level attributes first must not matter
        psets = common.call_impl(lambda: len(cs.partition_sets))
        if psets != 1:
            findings.append({"kind": "spec", "locus": "numeric.partition_sets.count", "detail": repr(psets)})
        else:
            p0, p1 = cs.partition_sets[0]
            pm = _get(plain, "means")
            im = _get(p1, "means")
            exp = [pm] if isinstance(pm, list) else pm
            sc.compare(findings, "spec", "numeric.inflate.means", im, exp, "inflated 1 x n means vs un-inflated strand means")
            sc.compare(findings, "spec", "numeric.inflate.counts", _get(p1, "counts"), [_get(plain, "counts")], "counts")
            sc.compare(findings, "spec", "numeric.inflate.shape", _get(p1, "shape"), [1, len(pm) if isinstance(pm, list) else 0], "shape")
            sc.compare(findings, "spec", "numeric.nub.means", _get(p0, "means") if _get(p0, "shape") == [] else _get(p0, "means"),
                       _get(p0, "means"), "nub")
            key = (fam, X.kind, repr(pm))
    return findings, key


def describe(case):
    d = sc.describe(case)
    d["family"] = case["family"]
    return d


shrink_candidates = sc.shrink_candidates
