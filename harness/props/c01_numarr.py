"""C01 extension — numeric arrays (DT.NUM_ARRAY): the pseudo-dimension built from the measures' metadata, the
dimension_order permutation of shape and valid-index grid, ARR extractor classes, `_NumArrCubeCounts`.

Numeric array alone (strand), x CAT-like, x MR (2-D slices), x CAT x CAT and x CA (3-D: one slice per item).
Layouts with 4 or more "all dimensions" (NUM_ARR x CAT x MR ...) are NOT generated: no real payload evidences
what the back end writes there (see fixes/F30_numarr_dimension_order_4d_NOT_APPLIED_contract_not_evidenced.diff).
"""
from props import _numarr_gen as ng

PROPERTY = "C01"
LEAN_MODULE = "CrCube.Props.C01_Numeric"
THEOREMS = [
    "CrCube.C01.rotation_shape",
    "CrCube.C01.rotation_view",
    "CrCube.C01.dimension_order_is_rotation",
    "CrCube.C01.dimension_order_len4_counterexample",
    "CrCube.C01.numarr_reports_payload_2d",
    "CrCube.C01.numarr_reports_payload_1d",
    "CrCube.C01.numarr_reports_payload_3d",
    "CrCube.C01.numarr_reports_payload_ca",
    "CrCube.C01.numarr_flat_reports_cell_2d",
    "CrCube.C01.numarr_flat_reports_cell_1d",
    "CrCube.C01.numarr_flat_reports_cell_3d",
    "CrCube.C01.numarr_plain_counts_unusable",
]
RULE = ("numeric arrays of 1-4 subvariables alone / x {cat,cat_date,datetime,text,binned} / x mr / x cat x cat / x ca "
        "(at most 3 all-dimensions), per-item missingness from 0 to 100 %, weighted or not, measures and valid-count "
        "presence as for numeric measures, {'?': code} holes, median data nested per group cell or flat; non-trivial = "
        ">= 2 distinct finite reported values; distinct = (kinds, n_items, valid-count mode, measures, values)")
ASSUMPTIONS = ["numeric-array measures are laid out (group dimensions ..., items): layout evidenced by the real fixtures "
               "for <= 3 all-dimensions only; 4+ all-dimension numeric-array cubes are out of scope"]

GROUPS = [[], [], ["cat"], ["cat"], ["cat"], ["mr"], ["mr"], ["mr"], ["cat", "cat"], ["cat", "cat"], ["ca"],
          ["cat_date"], ["datetime"], ["text"], ["binned"]]


def gen_kinds(rng):
    g = list(rng.choice(GROUPS))
    if g == ["cat", "cat"] and rng.random() < 0.3:
        g[rng.randrange(2)] = rng.choice(["cat_date", "text", "binned"])
    return g


SYSTEMATIC = [[], ["cat"], ["mr"], ["cat", "cat"], ["ca"], ["datetime"]]


def generate(ctx):
    out = []
    for kinds in SYSTEMATIC:
        for nit in (1, 3):
            out.append(ng.gen_case(ctx.rng, kinds, nit, True, measures=list(ng.NUMERIC_MEASURES),
                                   vc=ctx.rng.choice(["uw", "u"]), n_resp=ctx.rng.randint(15, 40), min_n=2))
    for _ in range(ctx.n(110, 2500)):
        nit = ctx.rng.choice([1, 2, 2, 3, 3, 4])
        out.append(ng.gen_case(ctx.rng, gen_kinds(ctx.rng), nit, True))
    return out


def lean_ops(case):
    return ng.lean_ops(case)


def evaluate(case, louts, ctx):
    return ng.evaluate_case(case, louts, ctx, "c01", "numarr")


describe = ng.describe
shrink_candidates = ng.shrink_candidates
