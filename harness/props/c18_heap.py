"""C18 (extension) -- aliasing of cached arrays: the HYPOTHESIS of `heap_read_refines`, checked on the real library.

Lean (`Model/Heap.lean`, `Props/C18_Heap.lean`): lazy caches hold ADDRESSES of mutable arrays; if no property body
writes to an address that existed before it ran (`NoInPlaceWrite`), every read in every history returns the fresh
value (`heap_read_refines`), and the contents of every allocated address never change (`integrity_invariant`);
one in-place write into a cached address and some later read differs (`inplace_write_counterexample`).

This module checks `integrity_invariant` -- the observable consequence of `NoInPlaceWrite` -- dynamically:

  walk    real Cube(s) / CubeSet / partitions on generated responses (the case generators of c18.py); a schedule that
          reads EVERY public property of one partition in random order, interleaved with reads of the other objects
          sharing the same cube-level caches; after EVERY read the whole object graph reachable from the roots is
          walked (`__dict__` of every cr.cube object, tuples, lists, dicts, sets; every ndarray and its `.base` chain)
          and the contents (bytes + dtype + shape; masks of masked arrays) of every array seen at an EARLIER walk
          are compared with what they were when first seen.  A change = an in-place write into cached state.
          (Arrays allocated and edited inside one read are never flagged: they were not reachable before it.)
  twin    after the schedule every array a cache holds is compared with the array found by navigating the SAME path
          (attribute / index / key chain) on new objects over deep copies of the pristine arguments, where nothing
          else has been read: catches a cache that was computed and polluted inside one and the same read.
  search  on any such event: every public property of every object is (re-)read on the objects under test and
          compared with a fresh single-read evaluation: if one differs the finding is kind "spec" (C18 itself is
          violated: that read depends on the history), otherwise kind "model" (the hypothesis of the theorem fails,
          no public read found that shows it).
  alias   writable arrays shared (np.shares_memory) between two different cache slots: COUNTED only (aliasing
          alone is harmless: theorem heap_read_refines).
"""
import copy
import json
import random

import common
from props import c18

PROPERTY = "C18"
LEAN_MODULE = "CrCube.Props.C18_Heap"
THEOREMS = [
    "CrCube.C18.heap_read_refines",
    "CrCube.C18.heap_read_refines_from",
    "CrCube.C18.heap_fresh_eq_den",
    "CrCube.C18.integrity_invariant",
    "CrCube.C18.noInPlaceWrite_dynamic",
    "CrCube.C18.inplace_write_counterexample",
    "CrCube.C18.inplace_write_breaks_integrity",
]
RULE = ("heap: the api / scale / diffs / smooth / strand designs of c18.py (1-3 dims of cat/mr/ca/datetime/text/cat_date, "
        "transforms incl. subtotals and subtotal differences, population, min-base, numeric measures) x 1-2 cubes (+ a "
        "cube set) on the same arguments x a schedule = every public property of one partition in random order "
        "interleaved with random reads of every other object; the object graph is walked after every read. "
        "Non-trivial = at least 20 cached arrays were tracked over at least 30 reads; distinct = distinct (kinds, "
        "transforms, schedule length) key")
ASSUMPTIONS = [
    "cached state = every ndarray reachable from the Cube / CubeSet objects through __dict__ of cr.cube objects, tuples, "
    "lists, dicts, sets and ndarray.base chains (arrays hidden in closures / generators / C objects are not seen)",
    "an in-place write that leaves the bytes unchanged (x *= 1) is not seen - nor can it change any result",
]
TRUSTED_EXTRA = ["ndarray.tobytes() of an array (and of its mask) identifies its contents"]


def F(kind, locus, detail):
    return {"kind": kind, "locus": locus, "detail": detail[:1400]}


# ---------------------------------------------------------------------------------------
# the object-graph walk


def snap(a):
    """content identity of an array: dtype + shape + bytes (NaN-safe: bitwise), mask included"""
    import numpy as np
    try:
        if isinstance(a, np.ma.MaskedArray):
            d = np.asarray(a.data)
            body = repr(d.tolist()) if d.dtype.hasobject else d.tobytes()
            return (a.dtype.str, a.shape, body, np.ma.getmaskarray(a).tobytes())
        if a.dtype.hasobject:
            return (a.dtype.str, a.shape, repr(a.tolist()))
        return (a.dtype.str, a.shape, a.tobytes())
    except Exception as e:  # noqa
        return ("unsnappable", type(e).__name__)


def show(a):
    import numpy as np
    try:
        return np.array2string(np.asarray(a), threshold=12, edgeitems=3, precision=5).replace("\n", " ")[:160]
    except Exception:  # noqa
        return "<%s>" % type(a).__name__


def walk(roots, skip_ids):
    """-> list of (array, slot 'Class.attr', path or None, owner id, via_base) for every ndarray reachable"""
    import enum
    import numpy as np
    out = []
    seen = set(skip_ids)
    stack = [(obj, "root", label, (("r", label),), 0) for label, obj in roots.items()]
    while stack:
        x, cls, attr, path, owner = stack.pop()
        if x is None or isinstance(x, (str, bytes, int, float, bool, complex, enum.Enum, type)):
            continue
        i = id(x)
        if i in seen:
            continue
        seen.add(i)
        if isinstance(x, np.ndarray):
            out.append((x, "%s.%s" % (cls, attr), path, owner, False))
            b = x.base
            while isinstance(b, np.ndarray):
                if id(b) not in seen:
                    seen.add(id(b))
                    out.append((b, "%s.%s" % (cls, attr), None, owner, True))
                b = b.base
            if x.dtype.hasobject:
                for j, y in enumerate(x.ravel().tolist()):
                    stack.append((y, cls, attr, None, owner))
            continue
        if isinstance(x, (tuple, list)):
            for j, y in enumerate(x):
                stack.append((y, cls, attr, None if path is None else path + (("i", j),), owner))
            continue
        if isinstance(x, dict):
            for k, y in x.items():
                stack.append((y, cls, attr, None if path is None else path + (("k", k),), owner))
            continue
        if isinstance(x, (set, frozenset)):
            for y in x:
                stack.append((y, cls, attr, None, owner))
            continue
        mod = getattr(type(x), "__module__", "") or ""
        if mod.startswith("cr.cube"):
            d = getattr(x, "__dict__", None)
            if isinstance(d, dict):
                name = type(x).__name__
                for k, y in list(d.items()):
                    stack.append((y, name, k, None if path is None else path + (("a", k),), i))
    return out


def navigate(roots, path):
    x = None
    for kind, k in path:
        if kind == "r":
            x = roots[k]
        elif kind == "a":
            x = getattr(x, k)
        else:
            x = x[k]
    return x


class Tracker:
    def __init__(self, roots, skip_ids):
        self.roots = roots
        self.skip = skip_ids
        self.known = {}        # id(array) -> dict(arr, snap, slot, path, step, shown)
        self.events = []

    def step(self, step, label, culprit=None):
        """compare every array seen at an earlier walk with its first contents, then take in the new ones"""
        for e in self.known.values():
            s = snap(e["arr"])
            if s != e["snap"]:
                self.events.append({"slot": e["slot"], "by": label, "step": step, "first_seen": e["step"],
                                    "was": e["shown"], "now": show(e["arr"]), "base": e["base"], "culprit": culprit})
                e["snap"] = s                      # report a change once
                e["shown"] = show(e["arr"])
        for arr, slot, path, owner, via_base in walk(self.roots, self.skip):
            if id(arr) not in self.known:
                self.known[id(arr)] = {"arr": arr, "snap": snap(arr), "slot": slot, "path": path, "step": step,
                                       "shown": show(arr), "owner": owner, "base": via_base}


def alias_count(tracker):
    """number of (unordered) pairs of DIFFERENT cache slots holding writable arrays over the same memory"""
    import numpy as np
    groups = {}
    for e in tracker.known.values():
        a = e["arr"]
        if e["base"] or a.size == 0:
            continue
        b = a
        while isinstance(b.base, np.ndarray):
            b = b.base
        groups.setdefault(id(b), []).append(e)
    n = 0
    for es in groups.values():
        if len(es) < 2:
            continue
        for i in range(len(es)):
            for j in range(i + 1, min(len(es), i + 6)):
                x, y = es[i], es[j]
                if (x["owner"], x["slot"]) == (y["owner"], y["slot"]):
                    continue
                if (x["arr"].flags.writeable or y["arr"].flags.writeable) and np.shares_memory(x["arr"], y["arr"]):
                    n += 1
    return n


# ---------------------------------------------------------------------------------------
# cases


def gen_strand(rng):
    """1-D cubes (strands) with subtotal insertions and numeric measures (sum / mean / stddev ...): the strand's order,
    fills, share-of-sum and scale statistics all start from a few cached vectors"""
    return {"kinds": [rng.choice(["cat", "cat", "cat_date", "mr"])], "seed": rng.randrange(1 << 30), "nsched": 0,
            "population": rng.choice([None, 1000]), "min_base": rng.choice([0, 0, 5]), "with_set": rng.random() < 0.3,
            "ncubes": rng.choice([1, 2]), "mrins": False, "holes": False, "numeric_all": rng.random() < 0.6,
            "no_missing": rng.random() < 0.5, "waves": rng.random() < 0.6, "pairwise": None, "measures": rng.random() < 0.7}


def generate(ctx):
    rng = ctx.rng
    cases = []
    plan = [(c18.gen_api, ctx.n(14, 200)), (c18.gen_scale, ctx.n(5, 60)), (c18.gen_diffs, ctx.n(6, 60)),
            (c18.gen_smooth, ctx.n(3, 40)), (gen_strand, ctx.n(8, 80))]
    for g, n in plan:
        for _ in range(n):
            c = dict(g(rng))
            c["t"] = "heap"
            c["flavour"] = g.__name__
            c["nextra"] = rng.randint(6, 14)
            cases.append(c)
    return cases


def lean_ops(case):
    return []


def describe(case):
    return {k: case[k] for k in ("t", "flavour", "kinds", "population", "min_base", "ncubes", "with_set") if k in case}


def shrink_candidates(case):
    if case.get("with_set"):
        yield dict(case, with_set=False)
    if case.get("ncubes", 1) > 1:
        yield dict(case, ncubes=1)
    if case.get("nextra", 0) > 0:
        yield dict(case, nextra=0)


# ---------------------------------------------------------------------------------------


def evaluate(case, louts, ctx):
    try:
        return _evaluate(case, ctx)
    except common.HarnessFault:
        raise
    except Exception as e:  # noqa
        import traceback
        tb = traceback.extract_tb(e.__traceback__)
        lib = [fr for fr in tb if "/cr/cube/" in fr.filename]
        if not lib or "c18_heap" in tb[-1].filename:
            raise
        return [F("spec", "heap.library-raises", "%s: %s at %s:%d (%s)" % (
            type(e).__name__, e, lib[-1].filename.split("/cr/cube/")[-1], lib[-1].lineno, lib[-1].name))], None


def _evaluate(case, ctx):
    import numpy as np
    findings = []
    resp0, tr0 = c18.api_build(case)
    rng = random.Random(case["seed"] ^ 0x4ea9)
    desc = "kinds=%s transforms=%s population=%r min_base=%r" % (case["kinds"], json.dumps(tr0), case["population"], case["min_base"])
    probe = c18.make_objects(case, copy.deepcopy(resp0), copy.deepcopy(tr0))
    try:
        nparts = len(probe["cube0"].partitions)
        targets = []
        for lab in probe:
            targets.append(lab)
            for k in range(nparts):
                targets.append("%s.p%d" % (lab, k))
        reads_by_target = {t: c18.public_reads(c18.resolve_target(probe, t)) for t in targets}
    except Exception:  # noqa   (c18.py reports cubes whose partitions cannot be built)
        ctx.count("heap-unbuildable")
        return [], None
    # schedule: a full sweep of one partition + random reads of everything else, interleaved
    main = "cube0.p%d" % rng.randrange(nparts)
    sweep = [(main, n) for n in reads_by_target[main]]
    rng.shuffle(sweep)
    universe = [(t, n) for t in targets for n in reads_by_target[t]]
    extra = [rng.choice(universe) for _ in range(case.get("nextra", 8))]
    sched = list(sweep)
    for x in extra:
        sched.insert(rng.randrange(len(sched) + 1), x)

    resp, tr = copy.deepcopy(resp0), copy.deepcopy(tr0)
    objs = c18.make_objects(case, resp, tr)
    tracker = Tracker(objs, {id(resp), id(tr)})
    tracker.step(0, "construction")
    for i, (t, n) in enumerate(sched):
        try:
            target = c18.resolve_target(objs, t)
        except Exception:  # noqa
            continue
        c18.read(target, n)
        tracker.step(i + 1, "%s.%s" % (t, n), (t, n))
        if len(tracker.events) > 6:
            break

    # twin: the same cache paths on new objects where nothing else was read
    stale = []
    if not tracker.events:
        twin = c18.make_objects(case, copy.deepcopy(resp0), copy.deepcopy(tr0))
        ncmp = 0
        for e in list(tracker.known.values()):
            if e["path"] is None:
                continue
            try:
                import warnings
                with warnings.catch_warnings():
                    warnings.simplefilter("ignore")
                    other = navigate(twin, e["path"])
            except Exception:  # noqa
                ctx.count("heap-twin-unreachable")
                continue
            if not isinstance(other, np.ndarray):
                ctx.count("heap-twin-unreachable")
                continue
            ncmp += 1
            if snap(other) != snap(e["arr"]):
                ok, _ = common.deep_close(c18.canon(e["arr"]), c18.canon(other))
                if ok:
                    continue                      # last-bit float noise is not a write
                stale.append({"slot": e["slot"], "by": "(some read of the schedule, inside the read that first computed it)",
                              "step": e["step"], "first_seen": e["step"], "was": show(other), "now": show(e["arr"]),
                              "base": False, "path": "/".join(str(k) for _, k in e["path"]),
                              "culprit": sched[e["step"] - 1] if 0 < e["step"] <= len(sched) else None})
                if len(stale) > 3:
                    break
        ctx.count("heap-twin-compared", ncmp)

    events = tracker.events + stale
    if events:
        # search: is there a public read that now differs from a fresh evaluation?
        witness = None
        fresh_cache = {}

        def fresh(t, n):
            kt = t.replace("cube1", "cube0").replace("cube2", "cube0")
            if (kt, n) not in fresh_cache:
                fo = c18.make_objects(dict(case, ncubes=1), copy.deepcopy(resp0), copy.deepcopy(tr0))
                fresh_cache[(kt, n)] = c18.read(c18.resolve_target(fo, kt), n)
            return fresh_cache[(kt, n)]
        order = [main] + [t for t in targets if t != main]
        for t in order:
            try:
                target = c18.resolve_target(objs, t)
            except Exception:  # noqa
                continue
            for n in reads_by_target[t]:
                got, want = c18.read(target, n), fresh(t, n)
                ok, where = common.deep_close(got, want)
                if not ok:
                    witness = "%s.%s now reads %s, a fresh evaluation gives %s (%s)" % (
                        t, n, json.dumps(got)[:160], json.dumps(want)[:160], where)
                    break
            if witness:
                break
        if witness is None:
            # everything the schedule read is cached on the partition itself by now: replay ONLY the writing read on
            # new objects, then read everything else (computed from the polluted caches) against fresh
            for cul in [ev.get("culprit") for ev in events if ev.get("culprit")][:2]:
                ro = c18.make_objects(case, copy.deepcopy(resp0), copy.deepcopy(tr0))
                try:
                    c18.read(c18.resolve_target(ro, cul[0]), cul[1])
                except Exception:  # noqa
                    continue
                for t in [cul[0]] + [t for t in order if t != cul[0]]:
                    try:
                        target = c18.resolve_target(ro, t)
                    except Exception:  # noqa
                        continue
                    for n in reads_by_target[t]:
                        if (t, n) == tuple(cul):
                            continue
                        got, want = c18.read(target, n), fresh(t, n)
                        ok, where = common.deep_close(got, want)
                        if not ok:
                            witness = "on new objects, after reading only %s.%s, %s.%s reads %s, a fresh evaluation gives %s (%s)" % (
                                cul[0], cul[1], t, n, json.dumps(got)[:160], json.dumps(want)[:160], where)
                            break
                    if witness:
                        break
                if witness:
                    break
        reported = set()
        for ev in events:
            slot = ev["slot"]
            if slot in reported:
                continue
            reported.add(slot)
            what = ("the array cached at %s%s (first seen after read #%d) was %s and is %s after read #%d = %s" % (
                slot, " [reached through .base]" if ev["base"] else "", ev["first_seen"], ev["was"], ev["now"], ev["step"], ev["by"])
                if "path" not in ev else
                "the array cached at %s (path %s) is %s; the same slot on new objects where nothing else was read is %s" % (
                    slot, ev["path"], ev["now"], ev["was"]))
            if witness:
                findings.append(F("spec", "heap.inplace-write:%s" % slot,
                                  "%s: in-place write into cached state: %s; afterwards %s" % (desc, what, witness)))
            else:
                findings.append(F("model", "heap.inplace-write:%s" % slot,
                                  "%s: in-place write into cached state (hypothesis NoInPlaceWrite of heap_read_refines fails): "
                                  "%s; no public read was found that differs from a fresh evaluation" % (desc, what)))
            if len(findings) >= 3:
                break

    ntracked = len(tracker.known)
    ctx.count("heap-arrays-tracked", ntracked)
    ctx.count("heap-reads", len(sched))
    ctx.count("heap-aliased-writable-slot-pairs", alias_count(tracker))
    ctx.count("heap-flavour:%s" % case.get("flavour"))
    ctx.count("heap-nparts:%d" % nparts)
    key = None
    if ntracked >= 20 and len(sched) >= 30:
        key = ("heap", tuple(case["kinds"]), json.dumps(tr0), len(sched), case["ncubes"], case["with_set"])
    return findings, key
