"""C03 extension - proportions of REGULAR subtotals that stand next to DIFFERENCE subtotals.

Family: categorical and categorical-DATE dimensions (strands; rows and / or columns of 2-D and 3-D slices, with MR partners)
carrying 2-4 insertions that MIX regular subtotals with difference subtotals (single-term wave differences, multi-term
differences, negative-only ones) in EVERY listing order - regular before difference, between two differences, after them -
spelled with `args`, `kwargs.positive` or both, with and without insertion ids, at transform level or view level, anchored
top / bottom / at an element.  On a categorical-date dimension the library routes the whole subtotal block of the proportions
through `WaveDiffSubtotals` / `WaveDiffSubtotal`, which pairs every subtotal with its default value position by position:
the property's statement about the cells that are NOT differences (proportion = count / base, within [0, 1], NaN exactly on
a zero base, percentage = 100 x) must survive whatever stands next to them in the list.

Oracles
  spec   every cell that is not in a difference row / column: proportion = (sum of the respondent-level counts of the listed
         addends) / (the respondent-level base of the direction), both from the Lean Spec ops `strand_spec` / `slice_spec`;
         the same against the implementation's own `counts` / `*_weighted_bases`; range [0, 1]; NaN iff base = 0;
         percentages = 100 x proportions on ALL cells (differences included).
  model  all cells, differences included: the Lean model's assembled proportion blocks (`strand_sub` / `slice_sub`:
         `Stripe.waveVal`, `WaveDiff.row / col`), so a difference that silently keeps the plain (count-level) default, or
         takes the value computed for another subtotal, is reported as a broken correspondence.
"""
import copy
import math

import common
import gen
from props import _slice_common as sc
from props import _subtotals as S

PROPERTY = "C03"
LEAN_MODULE = ["CrCube.Props.C03", "CrCube.Props.C03_Mixed"]
THEOREMS = [
    "CrCube.C03.waveVal_regular",
    "CrCube.C03.strand_regular_subtotal_prop",
    "CrCube.C03.strand_regular_subtotal_order_free",
    "CrCube.C03.waveRow_regular",
    "CrCube.C03.waveCol_regular",
]
RULE = ("cat / cat-date strands and slices (MR partners, 3-D) with 2-4 insertions mixing regular and difference subtotals in every "
        "listing order; non-difference cells judged against count / base of the respondent-level spec and of the implementation's "
        "own outputs, range, NaN iff zero base, x100; all cells against the Lean model's assembled blocks; non-trivial = a "
        "regular subtotal with a proportion strictly between 0 and 1 next to a difference; distinct = (kinds, insertion "
        "pattern, survey prefix)")
ASSUMPTIONS = ["Spec.cubeOf is the back end's tabulation (checked per case in C01)", "weights are non-negative",
               "addends of a generated regular subtotal are distinct valid ids (duplicates / stale ids are C04's business)"]

DIRS = [("row", "row_bases"), ("column", "column_bases"), ("table", "table_bases")]

DESIGNS = [["cat_date"], ["cat_date"], ["cat_date"], ["cat"],
           ["cat_date", "cat"], ["cat", "cat_date"], ["cat_date", "cat_date"], ["cat_date", "mr"], ["mr", "cat_date"],
           ["cat", "cat"], ["cat", "cat_date", "cat"], ["cat", "cat", "cat_date"]]


# ---------------------------------------------------------------------------------------------
# generation


def _gen_mixed(rng, v):
    """2-4 insertions on the valid categories of `v`: regular subtotals and differences, in every listing order."""
    ids = sc.valid_ids(v)
    if len(ids) < 2:
        return []
    n = rng.choice([2, 2, 3, 3, 4])
    kinds = [rng.choice(["reg", "reg", "diff11", "diff11", "diffmulti", "negonly"]) for _ in range(n)]
    if rng.random() < 0.85:
        if "reg" not in kinds:
            kinds[rng.randrange(n)] = "reg"
        if all(k == "reg" for k in kinds):
            kinds[rng.randrange(n)] = rng.choice(["diff11", "diff11", "diffmulti"])
        if "reg" not in kinds:              # n == 2 and the second draw replaced the only regular one
            kinds[0] = "reg"
    rng.shuffle(kinds)
    r = rng.random()
    if r < 0.45 and "reg" in kinds:         # a regular subtotal listed FIRST
        i = kinds.index("reg")
        kinds[0], kinds[i] = kinds[i], kinds[0]
    elif r < 0.6 and "reg" in kinds:        # ... or LAST
        i = kinds.index("reg")
        kinds[-1], kinds[i] = kinds[i], kinds[-1]
    with_id = rng.choice(["all", "all", "none", "shuffled"])
    id_pool = list(range(1, n + 1))
    if with_id == "shuffled":
        rng.shuffle(id_pool)
    out = []
    for k, kind in enumerate(kinds):
        d = {"function": "subtotal", "name": "%s%d" % (kind, k), "anchor": rng.choice(["top", "bottom", "bottom"] + ids)}
        if kind == "reg":
            pos = rng.sample(ids, rng.randint(1, min(3, len(ids))))
            form = rng.choice(["args", "both", "kwpos"])
            if form == "args":
                d["args"] = pos
            elif form == "both":
                d["args"] = pos
                d["kwargs"] = {"positive": list(pos)}
            else:
                d["args"] = []
                d["kwargs"] = {"positive": pos}
        elif kind == "diff11":
            a, b = rng.sample(ids, 2)
            d["args"] = [a]
            d["kwargs"] = {"negative": [b]} if rng.random() < 0.5 else {"positive": [a], "negative": [b]}
        elif kind == "diffmulti":
            pos = rng.sample(ids, rng.randint(1, min(2, len(ids))))
            rest = [i for i in ids if i not in pos] or ids
            neg = rng.sample(rest, rng.randint(1 if len(pos) > 1 else min(2, len(rest)), min(2, len(rest))))
            d["args"] = pos
            d["kwargs"] = {"positive": list(pos), "negative": neg}
        else:
            d["args"] = []
            d["kwargs"] = {"negative": rng.sample(ids, rng.randint(1, min(2, len(ids))))}
        if with_id != "none":
            d["id"] = id_pool[k]
        out.append(d)
    return out


def gen_case(rng, n_resp=None):
    kinds = rng.choice(DESIGNS)
    vars_ = []
    for i, k in enumerate(kinds):
        if k == "mr":
            vars_.append(gen.gen_var(rng, k, "v%d" % i, n=rng.randint(1, 3)))
        else:
            vars_.append(gen.gen_var(rng, k, "v%d" % i, n=rng.randint(3, 6), min_valid=rng.choice([2, 3, 3, 4])))
    weighted = rng.random() < 0.65
    survey = gen.gen_survey(rng, vars_, n_resp=n_resp if n_resp is not None else rng.randint(6, 40), weighted=weighted, tiny=True)
    case = {"vars": [v.to_json() for v in vars_], "survey": gen.survey_to_json(survey), "weighted": weighted, "min_base": 0}
    dims = vars_[-2:] if len(vars_) >= 2 else vars_
    keys = ["rows", "cols"] if len(vars_) >= 2 else ["rows"]
    ins = {}
    for key, v in zip(keys, dims):
        if v.kind == "mr":
            continue
        # with two subtotalled dimensions one of them now and then stays bare
        if len(dims) == 2 and all(d.kind != "mr" for d in dims) and rng.random() < 0.25:
            continue
        lst = _gen_mixed(rng, v)
        if lst:
            ins[key] = {"place": rng.choice(["transform", "transform", "view"]), "list": lst}
    case["ins"] = ins
    return case


def generate(ctx):
    cases = [gen_case(ctx.rng) for _ in range(ctx.n(110, 2500))]
    for _ in range(ctx.n(10, 150)):       # zero bases: every proportion NaN, wave differences included
        cases.append(gen_case(ctx.rng, n_resp=ctx.rng.choice([0, 0, 1, 2])))
    return cases


# ---------------------------------------------------------------------------------------------
# Lean ops


def _lean_dim(case, vars_, key):
    dv = vars_[-2:] if len(vars_) >= 2 else vars_
    v = dv[0] if key == "rows" else dv[-1]
    if v.kind == "mr":
        return S.lean_dim(None, None, None)
    spec = case["ins"].get(key)
    if not spec:
        return S.lean_dim(v, None, None)
    if spec["place"] == "view":
        return S.lean_dim(v, spec["list"], None)
    return S.lean_dim(v, None, spec["list"])


def lean_ops(case):
    vars_, survey, lv, ls, wdata, udata = sc.lean_inputs(case)
    ops = sc.api_ops(case)
    if len(vars_) >= 2:
        for k in range(sc.nparts(vars_)):
            ops.append({"op": "slice_sub", "vars": lv, "wdata": wdata, "udata": udata, "k": k,
                        "rows": _lean_dim(case, vars_, "rows"), "cols": _lean_dim(case, vars_, "cols"),
                        "wvalid": False, "uvalid": False, "sums": None})
    else:
        ops.append({"op": "strand_sub", "vars": lv, "wdata": wdata, "udata": udata,
                    "rows": _lean_dim(case, vars_, "rows"), "sums": None})
    return ops


# ---------------------------------------------------------------------------------------------
# evaluation


def _make_cube(case):
    from cr.cube.cube import Cube
    vars_, survey = sc.load(case)
    resp = gen.cube_response(vars_, survey, case["weighted"])
    tr = {}
    two = len(vars_) >= 2
    for key, tkey in (("rows", "rows_dimension"), ("cols", "columns_dimension")):
        spec = case["ins"].get(key)
        if not spec:
            continue
        var_idx = (len(vars_) - 2 if key == "rows" else len(vars_) - 1) if two else 0
        if spec["place"] == "view":
            S.attach_view(resp, vars_, var_idx, "cat", spec["list"])
        else:
            tr[tkey] = {"insertions": copy.deepcopy(spec["list"])}
    return Cube(resp, transforms=tr)


def _div(c, b):
    if b == 0:
        return float("nan") if c == 0 else math.copysign(float("inf"), c)
    return c / b


def _isnan(x):
    return isinstance(x, float) and math.isnan(x)


def _impl_subs(dim):
    return [[[int(i) for i in s.addend_idxs], [int(i) for i in s.subtrahend_idxs]] for s in dim.subtotals]


def _pattern(case):
    out = []
    for key in ("rows", "cols"):
        spec = case["ins"].get(key)
        out.append(None if not spec else (spec["place"], tuple(d["name"].rstrip("0123456789") for d in spec["list"])))
    return tuple(out)


def _f(findings, kind, locus, detail):
    findings.append({"kind": kind, "locus": locus, "detail": detail})


def _cell_laws(findings, locus, p, pc, exp_spec, base_spec, c_impl, b_impl, where, diff):
    """the statement on ONE cell.  Returns True when the cell is a non-trivial regular one."""
    # percentages = 100 x proportions, every cell
    if not common.num_close(pc, p if _isnan(p) else 100 * p):
        _f(findings, "spec", locus + ".x100", "%s: percentage %r, proportion %r" % (where, pc, p))
    if diff:
        return False
    if not common.num_close(p, exp_spec):
        _f(findings, "spec", locus + ".count-over-base",
           "%s: %r, statement (listed addends' count / base, respondent level) %r" % (where, p, exp_spec))
    if c_impl is not None and b_impl is not None and not common.num_close(p, _div(c_impl, b_impl)):
        _f(findings, "spec", locus + ".own-count-over-own-base",
           "%s: %r, but its own count %r / base %r" % (where, p, c_impl, b_impl))
    if _isnan(p) != (base_spec == 0):
        _f(findings, "spec", locus + ".nan-iff-zero-base", "%s: %r with base %r" % (where, p, base_spec))
    if not _isnan(p) and not (-1e-12 <= p <= 1 + 1e-12):
        _f(findings, "spec", locus + ".range", "%s: %r outside [0, 1] on a cell that is not a difference" % (where, p))
    return (not _isnan(p)) and 0 < p < 1


def _eval_strand(case, louts, ctx, vars_, survey):
    findings = []
    api, spec, L = louts[0], louts[1], louts[2]
    v = vars_[0]
    pre = "" if case["weighted"] else "u"
    cube = _make_cube(case)
    st = cube.partitions[0]
    try:
        ro = [int(x) for x in st.row_order()]
        isubs = _impl_subs(st._rows_dimension)
    except Exception as e:  # noqa
        _f(findings, "model", "mixed.strand.construction", "%s: %s" % (type(e).__name__, e))
        return findings, None
    if isubs != L["subtotals"]:
        _f(findings, "model", "seam.mixed.strand.subtotals", "impl %r model %r; insertions %r" % (isubs, L["subtotals"], case["ins"]))
        return findings, None
    ns = len(isubs)
    C = common.model_to_float(spec[pre + "counts"])
    B = common.model_to_float(spec[pre + "bases"])
    terms, is_diff = L["spec_terms"], L["spec_is_diff"]
    tp = common.call_impl(lambda: st.table_proportions)
    tpc = common.call_impl(lambda: st.table_percentages)
    cnt = common.call_impl(lambda: st.counts)
    wb = common.call_impl(lambda: st.weighted_bases)
    if not (isinstance(tp, list) and isinstance(tpc, list) and len(tp) == len(ro) == len(tpc)):
        _f(findings, "spec", "mixed.strand.table_proportions.raises-or-extent", "%r / %r for order %r; insertions %r" % (tp, tpc, ro, case["ins"]))
        return findings, None
    # model seam: the whole assembled vector, differences included
    mb = common.model_to_float(L["table_proportions"]["base"])
    ms = common.model_to_float(L["table_proportions"]["subs"])
    model = [(ms[ns + s] if s < 0 else mb[s]) for s in ro]
    nontrivial = False
    any_diff = any(is_diff)
    for i, s in enumerate(ro):
        diff = s < 0 and is_diff[ns + s]
        rows = [s] if s >= 0 else terms[ns + s][0]
        count = sum(C[a] for a in rows)
        base = B[rows[0]] if rows else (B[0] if B else 0)
        exp = _div(count, base)
        where = "display row %d (%s %d) insertions %r" % (i, "subtotal" if s < 0 else "element", ns + s if s < 0 else s, case["ins"].get("rows"))
        locus = "mixed.strand.table_proportions.%s" % ("difference" if diff else "regular-subtotal" if s < 0 else "element")
        ci = cnt[i] if isinstance(cnt, list) and len(cnt) == len(ro) else None
        bi = wb[i] if isinstance(wb, list) and len(wb) == len(ro) else None
        nt = _cell_laws(findings, locus, tp[i], tpc[i], exp, base, ci, bi, where, diff)
        if nt and s < 0 and any_diff:
            nontrivial = True
        if not common.num_close(tp[i], model[i]):
            _f(findings, "model", "seam.mixed.strand.table_proportions.%s" % ("difference" if diff else "regular-subtotal" if s < 0 else "element"),
               "%s: impl %r model %r" % (where, tp[i], model[i]))
        elif diff:
            ctx.count("mixed_difference_cells_vs_model")
    if any_diff and any(s < 0 and not is_diff[ns + s] for s in ro):
        ctx.count("mixed_strands_with_regular_and_difference")
        first_diff = min(k for k in range(ns) if is_diff[k])
        if any(not is_diff[k] for k in range(first_diff)):
            ctx.count("mixed_strands_regular_listed_before_difference:" + v.kind)
    key = ("x".join(sc.kinds_of(vars_)), _pattern(case), repr(case["survey"][:3])) if nontrivial else None
    return findings, key


def _eval_slices(case, louts, ctx, vars_, survey):
    findings = []
    pre = "" if case["weighted"] else "u"
    np_ = sc.nparts(vars_)
    cube = _make_cube(case)
    if common.call_impl(lambda: len(cube.partitions)) != np_:
        return [{"kind": "spec", "locus": "mixed.npartitions", "detail": "partition count"}], None
    nontrivial = False
    for k in range(np_):
        spec, L = louts[2 * k + 1], louts[2 * np_ + k]
        sl = cube.partitions[k]
        try:
            ro = [int(x) for x in sl.row_order()]
            co = [int(x) for x in sl.column_order()]
            dims = sl._dimensions
            rsubs, csubs = _impl_subs(dims[0]), _impl_subs(dims[1])
        except Exception as e:  # noqa
            _f(findings, "model", "mixed.slice.construction", "%s: %s" % (type(e).__name__, e))
            return findings, None
        if rsubs != L["row_subtotals"] or csubs != L["col_subtotals"]:
            _f(findings, "model", "seam.mixed.slice.subtotals", "impl %r %r model %r %r; insertions %r"
               % (rsubs, csubs, L["row_subtotals"], L["col_subtotals"], case["ins"]))
            return findings, None
        nrs, ncs = len(rsubs), len(csubs)
        rterms, cterms = L["spec_row_terms"], L["spec_col_terms"]
        rdiff, cdiff = L["spec_row_is_diff"], L["spec_col_is_diff"]
        C = common.model_to_float(spec[pre + "counts"])
        cnt = common.call_impl(lambda: sl.counts)
        nR, nC = len(ro), len(co)
        mixed = (any(rdiff) and not all(rdiff)) or (any(cdiff) and not all(cdiff))
        if mixed:
            ctx.count("mixed_slices_with_regular_and_difference")
        for d, bkey in DIRS:
            name = "%s_proportions" % d
            Bs = common.model_to_float(spec[pre + bkey])
            P = common.call_impl(lambda: getattr(sl, name))
            PC = common.call_impl(lambda: getattr(sl, "%s_percentages" % d))
            WB = common.call_impl(lambda: getattr(sl, "%s_weighted_bases" % d))
            ok_shape = (isinstance(P, list) and isinstance(PC, list) and len(P) == nR == len(PC)
                        and all(len(r) == nC for r in P) and all(len(r) == nC for r in PC))
            if not ok_shape:
                if nR and nC:
                    _f(findings, "spec", "mixed.slice.%s.raises-or-extent" % name, "partition %d: %r; insertions %r" % (k, sc._short(P), case["ins"]))
                continue
            model = common.model_to_float(S.assemble_model(L[name], ro, co, nrs, ncs))
            own = (isinstance(cnt, list) and len(cnt) == nR and all(len(r) == nC for r in cnt)
                   and isinstance(WB, list) and len(WB) == nR and all(len(r) == nC for r in WB))
            for i, r in enumerate(ro):
                rows = [r] if r >= 0 else rterms[nrs + r][0]
                for j, c in enumerate(co):
                    cols = [c] if c >= 0 else cterms[ncs + c][0]
                    diff = (r < 0 and rdiff[nrs + r]) or (c < 0 and cdiff[ncs + c])
                    kind = "difference" if diff else ("element" if r >= 0 and c >= 0 else "regular-subtotal")
                    where = "partition %d display cell (%d,%d) [row %s, column %s] insertions %r" % (
                        k, i, j, "subtotal %d" % (nrs + r) if r < 0 else "element %d" % r,
                        "subtotal %d" % (ncs + c) if c < 0 else "element %d" % c, case["ins"])
                    exp = base = None
                    if not diff and rows and cols:
                        count = sum(C[a][b] for a in rows for b in cols)
                        if d == "row":
                            base = sum(Bs[a][cols[0]] for a in rows)
                        elif d == "column":
                            base = sum(Bs[rows[0]][b] for b in cols)
                        else:
                            base = Bs[rows[0]][cols[0]]
                        exp = _div(count, base)
                    nt = _cell_laws(findings, "mixed.slice.%s.%s" % (name, kind), P[i][j], PC[i][j], exp, base,
                                    cnt[i][j] if own else None, WB[i][j] if own else None, where, diff or exp is None)
                    if nt and kind == "regular-subtotal" and mixed:
                        nontrivial = True
                    if not common.num_close(P[i][j], model[i][j]):
                        _f(findings, "model", "seam.mixed.slice.%s.%s" % (name, kind), "%s: impl %r model %r" % (where, P[i][j], model[i][j]))
                    elif diff:
                        ctx.count("mixed_difference_cells_vs_model")
                if len(findings) > 12:
                    return findings, None
    key = ("x".join(sc.kinds_of(vars_)), _pattern(case), repr(case["survey"][:3])) if nontrivial else None
    return findings, key


def evaluate(case, louts, ctx):
    vars_, survey = sc.load(case)
    ctx.count("mixed_kinds:" + "x".join(v.kind for v in vars_))
    if len(vars_) >= 2:
        findings, key = _eval_slices(case, louts, ctx, vars_, survey)
    else:
        findings, key = _eval_strand(case, louts, ctx, vars_, survey)
    # one finding per locus is enough for the report
    seen, out = set(), []
    for f in findings:
        if f["locus"] not in seen:
            seen.add(f["locus"])
            out.append(f)
    return out, key


def describe(case):
    d = sc.describe(case)
    d["insertions"] = case["ins"]
    return d


def shrink_candidates(case):
    for c in sc.shrink_candidates(case):
        yield c
    # drop one insertion at a time
    for key, spec in case["ins"].items():
        for i in range(len(spec["list"])):
            if len(spec["list"]) > 1:
                ins = copy.deepcopy(case["ins"])
                del ins[key]["list"][i]
                yield dict(case, ins=ins)
