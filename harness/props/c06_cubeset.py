"""C06 extension — `CubeSet` on raw responses against the Lean model (Model/CubeSet.lean).

Real CubeSets (tabbook style, CA-as-0th, numeric-measure sets incl. MR / 2-D / numeric-array column cubes,
augmented single-column filter cubes, single-response sets, sets whose cubes have different partition counts,
text / envelope responses, degenerate sets) are built on generated responses; the Lean model gets the same RAW
responses and must agree on
  * `_is_multi_cube`, `_is_numeric_measure`, every cube's `cube_idx`, its response dict AFTER `augment_response` /
    `inflate`, dimension types, ndim, partition classes and slice idxs,
  * the caller's response objects afterwards (in-place edits), and a second CubeSet over them (re-use),
  * `partition_sets` (which cube / class / slice idx sits where; zip truncation),
  * `is_ca_as_0th`, `has_weighted_counts`, `n_responses`, `population_fraction`,
  * the counts of every partition of every set, computed in Lean by DECODING the cube's final response and running
    the existing count extractors (`sliceCounts`, `strandCounts`, CA-as-0th strand) on the decoded design.
Property-level (kind spec) checks, independent of the model: partition set k = k-th partition of every cube and
their number is the minimum; set-level attributes are the first cube's; an inflated 2-D column cube keeps every
value; a single-response set is that cube.
"""
import copy
import json
from fractions import Fraction

import gen
import common
from props.c01_glue import jcanon, NUMERIC

PROPERTY = "C06"
LEAN_MODULE = "CrCube.Props.C06_CubeSet"
THEOREMS = [
    "CrCube.C06.partition_sets_zip",
    "CrCube.C06.partition_sets_length",
    "CrCube.C06.inflate_values_unchanged",
    "CrCube.C06.inflate_counts_unchanged_1d",
    "CrCube.C06.inflate_partition_3d",
    "CrCube.C06.inflate_adds_unit_dimension",
    "CrCube.C06.inflate_not_idempotent_counterexample",
    "CrCube.C06.inflate_numarray_noop",
    "CrCube.C06.rowsDimension_type",
    "CrCube.C06.reuse_numeric_set_idempotent",
    "CrCube.C06.augment_idempotent",
    "CrCube.C06.augment_summary_forms_agree",
    "CrCube.C06.augment_pads_with_zeros",
    "CrCube.C06.augment_by_id_counterexample",
    "CrCube.C06.ca_as_0th_partitions",
    "CrCube.C06.ca_as_0th_strands",
    "CrCube.C06.single_cube_set",
    "CrCube.C06.cube_idx_assignment",
    "CrCube.C06.numeric_measure_from_first",
    "CrCube.C06.set_attributes_from_first",
]
RULE = ("cubeset: families tabbook / ca0th / numeric (0-D first response; 1-D cat or MR, 2-D, numeric-array column cubes) / "
        "augment (single-column filter cubes with fewer rows, id patterns incl. ids != positions) / single / uneven "
        "(different partition counts, empty partitions) / edge (no responses, short transforms, 0-D only last, augment "
        "against an inflated or enveloped summary) x dict / text / envelope; non-trivial = >= 2 cubes or an in-place edit; "
        "distinct = (family, classes of the partition sets, counts of the last partition)")
ASSUMPTIONS = ["numeric measures are listed in CUBE_MEASURE declaration order (fix F40); before the fix the order was the hash "
               "order of the running process"]

T_KINDS = ["cat", "cat", "mr", "cat_date", "text"]
RC_KINDS = ["cat", "cat", "mr", "cat_date"]


# ---------------------------------------------------------------------------------------
# generation


def _survey(rng, vars_, weighted):
    return gen.gen_survey(rng, vars_, n_resp=rng.randint(0, 14), weighted=weighted)


def _resp(vars_, survey, idxs, weighted, extra=None):
    vs = [vars_[i] for i in idxs]
    sv = [(w, [ans[i] for i in idxs]) for w, ans in survey]
    return gen.cube_response(vs, sv, weighted, extra_measures=extra)


def _holes(rng, n):
    return [gen.num(Fraction(rng.randint(-20, 60), rng.choice([1, 2, 4]))) if rng.random() < 0.85 else {"?": -1} for _ in range(n)]


def _size(vars_):
    tot = 1
    for x in gen.raw_shape(vars_):
        tot *= x
    return tot


def _form(rng, resps):
    mode = rng.choice(["dict"] * 5 + ["text", "envelope", "mixed"])
    out = []
    for r in resps:
        m = rng.choice(["dict", "text", "envelope", "text_envelope"]) if mode == "mixed" else mode
        if m == "dict":
            out.append(r)
        elif m == "text":
            out.append(json.dumps(r))
        elif m == "envelope":
            out.append({"value": r})
        else:
            out.append(json.dumps({"value": r}))
    return out


def gen_case(rng):
    fam = rng.choice(["tabbook", "tabbook", "ca0th", "ca0th", "numeric", "numeric", "numeric", "augment", "augment", "augment",
                      "single", "uneven", "uneven", "edge"])
    weighted = rng.random() < 0.5
    transforms = None
    if fam == "tabbook":
        n = rng.randint(2, 3)
        vars_ = [gen.gen_var(rng, rng.choice(T_KINDS), "v0", n=rng.randint(1, 3), missing_items=True)]
        vars_ += [gen.gen_var(rng, rng.choice(RC_KINDS), "v%d" % j, n=rng.randint(1, 3), missing_items=True) for j in range(1, n + 1)]
        sv = _survey(rng, vars_, weighted)
        resps = [_resp(vars_, sv, [0], weighted)] + [_resp(vars_, sv, [0, j], weighted) for j in range(1, n + 1)]
        if rng.random() < 0.3:
            # a 3-D member: table x rows x cols
            resps.append(_resp(vars_, sv, [1, 0, 2], weighted))
        resps = _form(rng, resps)
    elif fam == "ca0th":
        ca = gen.gen_var(rng, "ca", "v0", n=rng.randint(1, 3), ncat=rng.randint(2, 3), missing_items=True)
        if rng.random() < 0.4 and len(ca.items) >= 2:
            ca.items[rng.randrange(len(ca.items))]["missing"] = True
        xs = [gen.gen_var(rng, rng.choice(RC_KINDS), "v%d" % j, n=rng.randint(1, 3)) for j in (1, 2)]
        vars_ = [ca] + xs
        sv = _survey(rng, vars_, weighted)
        resps = [_resp(vars_, sv, [0], weighted), _resp(vars_, sv, [0, 1], weighted)]
        if rng.random() < 0.4:
            resps.append(_resp(vars_, sv, [0, 2], weighted))
        resps = _form(rng, resps)
    elif fam == "numeric":
        nm = rng.choice([["mean"], ["sum"], ["mean", "stddev"], ["median"], ["sum", "mean"], ["stddev", "sum"], ["sum", "median"],
                         ["valid_count_unweighted", "mean"], ["stddev", "median", "mean"], ["sum", "stddev", "median"]])
        cols = []
        ncols = rng.randint(1, 3)
        vars_all = []
        refs = rng.choice([None, {"alias": "numvar", "name": "num var-name"}, {"alias": "nv"}, {"name": "only name"}])
        n0 = rng.randint(0, 9)

        per_measure = rng.random() < 0.6      # each measure names the variable differently: the FIRST declared one counts

        def meta(m="mean"):
            md = {"derived": True, "type": {"class": "numeric", "integer": False}}
            if refs is not None:
                md["references"] = copy.deepcopy(refs)
                if per_measure:
                    for k in md["references"]:
                        md["references"][k] = "%s of %s" % (md["references"][k], m)
            return md

        r0 = {"query": {}, "result": {"dimensions": [], "missing": 0, "element": "crunch:cube", "counts": [n0], "n": n0,
                                      "measures": {"count": {"data": [n0], "n_missing": 0, "metadata": {}}}}}
        for m in nm:
            r0["result"]["measures"][m] = {"data": [gen.num(Fraction(rng.randint(0, 99), 2))], "n_missing": 0, "metadata": meta(m)}
        if rng.random() < 0.2:
            r0["result"]["filter_stats"] = {"filtered_complete": {"weighted": {"selected": 3, "other": rng.choice([1, 0, 5]), "missing": 0}}}
        resps = [r0]
        for j in range(ncols):
            shape = rng.choice(["1d", "1d", "1d", "2d", "numarr", "0d"])
            if shape == "numarr":
                nsub = rng.randint(1, 3)
                md = meta()
                md["type"]["subvariables"] = ["S%d" % i for i in range(nsub)]
                md.setdefault("references", {})["subreferences"] = [{"alias": "n%d" % i, "name": "N%d" % i} for i in range(nsub)]
                r = {"query": {}, "result": {"dimensions": [], "missing": 0, "element": "crunch:cube", "counts": [3] * nsub, "n": 3,
                                             "measures": {"count": {"data": [3] * nsub, "n_missing": 0, "metadata": {}}}}}
                for m in nm:
                    r["result"]["measures"][m] = {"data": _holes(rng, nsub), "n_missing": 0, "metadata": copy.deepcopy(md)}
                resps.append(r)
                continue
            if shape == "0d":
                r = copy.deepcopy(r0)
                resps.append(r)
                continue
            vs = [gen.gen_var(rng, rng.choice(["cat", "cat", "mr", "text"]), "c%d_0" % j, n=rng.randint(1, 3), missing_items=True)]
            if shape == "2d":
                vs.append(gen.gen_var(rng, rng.choice(["cat", "mr"]), "c%d_1" % j, n=rng.randint(1, 3)))
            sv = _survey(rng, vs, weighted)
            extra = {m: _holes(rng, _size(vs)) for m in nm}
            r = gen.cube_response(vs, sv, weighted, extra_measures=extra)
            for m in nm:
                r["result"]["measures"][m]["metadata"] = meta(m)
            resps.append(r)
        resps = _form(rng, resps)
    elif fam == "augment":
        n = rng.randint(2, 5)
        tail_missing = rng.random() < 0.5
        idmode = rng.choice(["pos", "pos", "pos", "perm", "shift"])
        vals = ["t%d" % i for i in range(n)] if rng.random() < 0.8 else [10 + i for i in range(n)]
        # falsy-but-valid values (int 0, '', False are int / str: they count) at the first / middle / last position;
        # a non-integral float is neither int nor str: never matched
        falsy_pos = []
        if rng.random() < 0.55:
            pool = [rng.choice([0, False]), ""]
            rng.shuffle(pool)
            spots = rng.sample([0, n // 2, n - 1], rng.randint(1, 2))
            for pos_, fv in zip(dict.fromkeys(spots), pool):
                vals[pos_] = fv
                falsy_pos.append(pos_)
        if rng.random() < 0.08:
            k_ = rng.randrange(n)
            if k_ not in falsy_pos:
                vals[k_] = 1.5
        ids = list(range(n))
        if idmode == "perm":
            rng.shuffle(ids)
        elif idmode == "shift":
            ids = [i + 1 for i in ids]           # ids 1..n: the last one is out of range of the zero vector

        def enum_dim(els):
            return {"derived": True, "references": {"alias": "txt", "name": "TXT"},
                    "type": {"class": "enum", "elements": els,
                             "subtype": {"class": "text", "missing_reasons": {"No Data": -1}, "missing_rules": {}}}}

        def cube(els, counts, single):
            res = {"counts": counts, "dimensions": [enum_dim(els)], "element": "crunch:cube", "missing": 0, "n": sum(counts),
                   "measures": {"count": {"data": list(counts), "n_missing": 0, "metadata": {}}}}
            if single is not None:
                res["is_single_col_cube"] = single
            return {"query": {}, "result": res}

        s_els = [{"id": ids[i], "missing": False, "value": vals[i]} for i in range(n)]
        s_counts = [rng.randint(0, 9) for _ in range(n)]
        if tail_missing:
            s_els.append({"id": -1, "missing": True, "value": {"?": -1}})
            s_counts.append(rng.randint(0, 3))
        resps = [cube(s_els, s_counts, None)]
        for _ in range(rng.randint(1, 2)):
            present = [i for i in range(n) if rng.random() < 0.6 or (i in falsy_pos and rng.random() < 0.8)]
            if rng.random() < 0.12:
                present = list(range(n))        # same length: not augmented
            f_vals = [vals[i] for i in present]
            if rng.random() < 0.1:
                f_vals.append("not-in-summary")
            if rng.random() < 0.1 and len(f_vals) >= 2:
                f_vals[0], f_vals[1] = f_vals[1], f_vals[0]          # order differs from the summary's
            f_els = [{"id": k, "missing": False, "value": v} for k, v in enumerate(f_vals)]
            f_counts = [rng.randint(1, 9) for _ in f_vals]
            if tail_missing and rng.random() < 0.8:
                f_els.append({"id": -1, "missing": True, "value": {"?": -1}})
                f_counts.append(rng.randint(0, 3))
            single = rng.choice([True, True, True, True, 1, False, None])
            r = cube(f_els, f_counts, single)
            if rng.random() < 0.06:
                del r["result"]["measures"]["count"]
            resps.append(r)
        if rng.random() < 0.45:
            resps = _form(rng, resps)
    elif fam == "single":
        kinds = rng.choice([["ca"], ["ca", rng.choice(RC_KINDS)], [rng.choice(T_KINDS), rng.choice(RC_KINDS)], [rng.choice(RC_KINDS)],
                            [rng.choice(T_KINDS), rng.choice(RC_KINDS), rng.choice(RC_KINDS)], []])
        vars_ = [gen.gen_var(rng, k, "v%d" % i, n=rng.randint(1, 3), missing_items=True) for i, k in enumerate(kinds)]
        sv = _survey(rng, vars_, weighted)
        r = gen.cube_response(vars_, sv, weighted)
        if not kinds:
            r["result"]["measures"]["mean"] = {"data": [1.5], "n_missing": 0, "metadata": {}}
        if rng.random() < 0.2 and not (kinds[:1] == ["ca"] and len(kinds) > 1):
            # (a single-col CA x X cube would be cut into strands of a 3-D array: unsupported by the library)
            r["result"]["is_single_col_cube"] = True
        resps = _form(rng, [r])
    elif fam == "uneven":
        mode = rng.choice(["two3d", "two3d", "1d_3d", "empty_table", "ca_mixed"])
        R = gen.gen_var(rng, rng.choice(RC_KINDS), "r", n=rng.randint(1, 3))
        C = gen.gen_var(rng, rng.choice(RC_KINDS), "c", n=rng.randint(1, 3))
        T1 = gen.gen_var(rng, rng.choice(T_KINDS), "t1", n=rng.randint(1, 4), missing_items=True)
        T2 = gen.gen_var(rng, rng.choice(T_KINDS), "t2", n=rng.randint(1, 4), missing_items=True)
        if mode == "empty_table" and not T2.is_array:
            for c in T2.cats:
                c["missing"] = True
        vars_ = [T1, T2, R, C]
        sv = _survey(rng, vars_, weighted)
        if mode == "1d_3d":
            resps = [_resp(vars_, sv, [2], weighted), _resp(vars_, sv, [0, 2, 3], weighted)]
        elif mode == "ca_mixed":
            ca = gen.gen_var(rng, "ca", "ca", n=rng.randint(1, 3), ncat=2, missing_items=True)
            vars_ = [ca, T1, R, C]
            sv = _survey(rng, vars_, weighted)
            resps = [_resp(vars_, sv, [0], weighted), _resp(vars_, sv, [1, 2, 3], weighted), _resp(vars_, sv, [0, 2], weighted)]
        else:
            resps = [_resp(vars_, sv, [0, 2, 3], weighted), _resp(vars_, sv, [1, 2, 3], weighted)]
            if rng.random() < 0.3:
                resps.append(_resp(vars_, sv, [0, 3, 2], weighted))
        resps = _form(rng, resps)
    else:   # edge
        mode = rng.choice(["no_responses", "short_transforms", "zero_d_last", "augment_vs_inflated", "augment_vs_envelope", "zero_d_pair"])
        v = gen.gen_var(rng, "text", "v0", n=3, allow_missing=False)
        sv = _survey(rng, [v], False)
        r1 = gen.cube_response([v], sv, False)
        z = {"query": {}, "result": {"dimensions": [], "missing": 0, "element": "crunch:cube", "counts": [4], "n": 4,
                                     "measures": {"count": {"data": [4], "n_missing": 0, "metadata": {}},
                                                  "mean": {"data": [2.5], "n_missing": 0, "metadata": {}}}}}
        if mode == "no_responses":
            resps = []
        elif mode == "short_transforms":
            resps = [r1, copy.deepcopy(r1)]
            transforms = [{}]
        elif mode == "zero_d_last":
            resps = [r1, copy.deepcopy(z)] if rng.random() < 0.5 else [r1, copy.deepcopy(r1), copy.deepcopy(z)]
        elif mode == "zero_d_pair":
            resps = [copy.deepcopy(z), copy.deepcopy(z)]
        elif mode == "augment_vs_inflated":
            f = copy.deepcopy(r1)
            f["result"]["is_single_col_cube"] = True
            f["result"]["counts"] = f["result"]["counts"][:2]
            resps = [copy.deepcopy(z), f]
        else:
            f = copy.deepcopy(r1)
            f["result"]["is_single_col_cube"] = True
            f["result"]["counts"] = f["result"]["counts"][:2]
            f["result"]["measures"]["count"]["data"] = f["result"]["measures"]["count"]["data"][:2]
            f["result"]["dimensions"][0]["type"]["elements"] = f["result"]["dimensions"][0]["type"]["elements"][:2]
            resps = [{"value": r1}, f]
        case_mode = mode
    if transforms is None:
        transforms = [rng.choice([None, {}, {"rows_dimension": {"prune": True}}]) for _ in resps]
    case = {"family": fam, "responses": resps, "transforms": transforms, "population": rng.choice([0, 1000])}
    if fam == "edge":
        case["mode"] = case_mode
    return case


def generate(ctx):
    return [gen_case(ctx.rng) for _ in range(ctx.n(170, 2500))]


# ---------------------------------------------------------------------------------------
# lean ops


def _transforms_json(ts):
    return [({} if t is None else t) for t in ts]


def lean_ops(case):
    base = {"responses": case["responses"], "transforms": case["transforms"]}
    return [dict(base, op="glue_cubeset"), dict(base, op="glue_part_counts")]


# ---------------------------------------------------------------------------------------
# evaluation


def _impl(fn):
    return common.call_impl(fn)


def _short(x):
    s = repr(x)
    return s if len(s) < 300 else s[:300] + "..."


def _cmp(findings, kind, locus, impl, expected, what=""):
    if jcanon(impl) != jcanon(expected):
        findings.append({"kind": kind, "locus": locus, "detail": "%s impl=%s expected=%s" % (what, _short(impl), _short(expected))})
        return False
    return True


SHIM_KEYS = ("subvar_alias", "datetime_value")


def _unshim(x):
    """drop the keys `_ElementIdShim` writes into element dicts in place (modelled in C18 / C19, not here)"""
    if isinstance(x, dict):
        return {k: _unshim(v) for k, v in x.items() if k not in SHIM_KEYS}
    if isinstance(x, list):
        return [_unshim(v) for v in x]
    return x


def _cube_view(c):
    return {"cube_idx": c._cube_idx_arg,
            "response": _impl(lambda: _unshim(copy.deepcopy(c._cube_response))),
            "dimension_types": _impl(lambda: [t.name for t in c.dimension_types]),
            "ndim": _impl(lambda: c.ndim),
            "partitions": _impl(lambda: [_part_view(p) for p in c.partitions])}


def _part_view(p):
    name = type(p).__name__
    return {"cls": name, "k": 0 if name == "_Nub" else p._slice_idx}


def _counts(p, weighted):
    name = type(p).__name__
    if name == "_Nub":
        return _impl(lambda: p.unweighted_count)
    return _impl(lambda: p.counts if weighted else p.unweighted_counts)


def evaluate(case, louts, ctx):
    from cr.cube.cube import Cube, CubeSet
    fam = case["family"]
    ctx.count("cubeset:" + fam)
    lset, lcounts = louts
    findings = []
    rs = copy.deepcopy(case["responses"])
    ts = copy.deepcopy(case["transforms"])
    cs = CubeSet(rs, ts, case["population"], 0)
    cubes = _impl_raw(lambda: cs._cubes)
    lib = {"multi": bool(cs._is_multi_cube)}
    lib["numeric"] = _impl(lambda: bool(cs._is_numeric_measure))
    if isinstance(cubes, dict):
        lib["cubes"] = cubes
        lib["partition_sets"] = cubes       # (a retry would run on half-edited responses)
    else:
        lib["cubes"] = [_cube_view(c) for c in cubes]

        def psets():
            out = []
            for st in cs.partition_sets:
                row = []
                for p in st:
                    j = next(i for i, c in enumerate(cubes) if p._cube is c)
                    row.append(dict(_part_view(p), cube=j))
                out.append(row)
            return out
        lib["partition_sets"] = _impl(psets)
    lib["objs_after"] = _unshim([json.loads(json.dumps(r)) if not isinstance(r, str) else r for r in rs]) if not isinstance(cubes, dict) else cubes

    def fresh():
        # a failed `_cubes` leaves the responses half-edited: every attribute is read on a pristine set
        return CubeSet(copy.deepcopy(case["responses"]), copy.deepcopy(case["transforms"]), case["population"], 0)
    for attr in ("is_ca_as_0th", "has_weighted_counts", "n_responses"):
        lib[attr] = _impl(lambda a=attr: getattr(fresh(), a))
    pf = _impl(lambda: fresh().population_fraction)
    # -- model vs implementation -------------------------------------------------------
    _cmp(findings, "model", "seam.cubeset.multi", lib["multi"], lset["multi"])
    _cmp(findings, "model", "seam.cubeset.numeric", lib["numeric"], lset["numeric"])
    if isinstance(lib["cubes"], list) and isinstance(lset["cubes"], list) and len(lib["cubes"]) == len(lset["cubes"]):
        for j, (a, b) in enumerate(zip(lib["cubes"], lset["cubes"])):
            for k in ("cube_idx", "dimension_types", "ndim", "partitions", "response"):
                _cmp(findings, "model", "seam.cubeset.cube.%s" % k, a[k], b[k], "cube %d %s" % (j, k))
    else:
        _cmp(findings, "model", "seam.cubeset.cubes", lib["cubes"], lset["cubes"], "cubes")
    _cmp(findings, "model", "seam.cubeset.objs_after", lib["objs_after"], lset["objs_after"], "caller's responses afterwards")
    _cmp(findings, "model", "seam.cubeset.partition_sets", lib["partition_sets"], lset["partition_sets"], "partition sets")
    for attr in ("is_ca_as_0th", "has_weighted_counts", "n_responses"):
        _cmp(findings, "model", "seam.cubeset.%s" % attr, lib[attr], lset[attr], attr)
    lpf = lset["population_fraction"]
    ok, where = common.deep_close(pf, common.model_to_float(lpf) if not isinstance(lpf, dict) else lpf)
    if not ok:
        findings.append({"kind": "model", "locus": "seam.cubeset.population_fraction", "detail": "impl=%r model=%r" % (pf, lpf)})
    # -- re-use: a second CubeSet over the SAME (already edited) objects -----------------
    if not isinstance(cubes, dict):
        cs2 = CubeSet(rs, ts, case["population"], 0)
        cubes2 = _impl_raw(lambda: cs2._cubes)
        v2 = cubes2 if isinstance(cubes2, dict) else [_cube_view(c) for c in cubes2]
        if isinstance(v2, list) and isinstance(lset["reuse_cubes"], list) and len(v2) == len(lset["reuse_cubes"]):
            for j, (a, b) in enumerate(zip(v2, lset["reuse_cubes"])):
                for k in ("cube_idx", "dimension_types", "ndim", "partitions", "response"):
                    _cmp(findings, "model", "seam.cubeset.reuse.%s" % k, a[k], b[k], "re-use cube %d %s" % (j, k))
        else:
            _cmp(findings, "model", "seam.cubeset.reuse", v2, lset["reuse_cubes"], "re-use")
    # -- cell values through decode + the existing extractors -----------------------------
    key = None
    last_counts = None
    if not isinstance(cubes, dict):
        # counts are compared on a transform-free set (the model's extractors know no pruning / hiding)
        cs0 = CubeSet(copy.deepcopy(case["responses"]), [None] * len(case["responses"]), case["population"], 0)
        sets = _impl_raw(lambda: cs0.partition_sets)
        lsets = lcounts["sets"]
        if not isinstance(sets, dict) and isinstance(lsets, list) and len(sets) == len(lsets):
            for k, (st, lst) in enumerate(zip(sets, lsets)):
                if len(st) != len(lst):
                    continue
                for p, lp in zip(st, lst):
                    if lp is None:
                        ctx.count("cubeset:part_not_decodable")
                        continue
                    if any(m.startswith("valid_count") for m in _plain(case["responses"][lp["cube"]])["result"]["measures"]):
                        continue        # counts then come from the valid-count measure (C01 numeric extension)
                    for w, name in ((True, "weighted"), (False, "unweighted")):
                        if lp[name] is None or (w and lp["cls"] == "_Nub"):
                            continue
                        ic = _counts(p, w)
                        ok, where = common.deep_close(ic, common.model_to_float(lp[name]))
                        if not ok:
                            findings.append({"kind": "model", "locus": "seam.cubeset.part_counts.%s" % name,
                                             "detail": "set %d cube %d %s: impl%s impl=%s model=%s" % (k, lp["cube"], lp["cls"], where, _short(ic), _short(lp[name]))})
                        last_counts = ic
        elif isinstance(sets, dict) != isinstance(lsets, dict):
            findings.append({"kind": "model", "locus": "seam.cubeset.part_counts.sets", "detail": "impl=%s model=%s" % (_short(sets), _short(lsets))})
    # -- property-level checks (no model involved) ---------------------------------------
    _spec_forms(case, findings)
    if fam == "augment" and not isinstance(cubes, dict):
        _spec_augment_labels(case, cubes, findings)
    if not isinstance(cubes, dict):
        parts = _impl_raw(lambda: [c.partitions for c in cubes])
        sets = _impl_raw(lambda: cs.partition_sets)
        if not isinstance(parts, dict) and not isinstance(sets, dict):
            exp_n = min((len(p) for p in parts), default=0)
            if len(sets) != exp_n:
                findings.append({"kind": "spec", "locus": "cubeset.partition_sets.length",
                                 "detail": "%d sets for cubes with %r partitions" % (len(sets), [len(p) for p in parts])})
            for k, st in enumerate(sets[:exp_n]):
                if len(st) != len(cubes) or any(st[j] is not parts[j][k] for j in range(len(st))):
                    findings.append({"kind": "spec", "locus": "cubeset.partition_sets.zip", "detail": "set %d is not the %d-th partition of every cube" % (k, k)})
                    break
        c0 = cubes[0] if cubes else None
        if c0 is not None:
            for attr in ("has_weighted_counts", "n_responses", "population_fraction"):
                a, b = _impl(lambda: getattr(fresh(), attr)), _impl(lambda: getattr(c0, attr))
                ok, _ = common.deep_close(a, b)
                if not ok:
                    findings.append({"kind": "spec", "locus": "cubeset.first_cube.%s" % attr, "detail": "%r vs first cube %r" % (a, b)})
        if len(case["responses"]) == 1:
            ref = _impl(lambda: [_part_view(p) for p in Cube(copy.deepcopy(case["responses"][0])).partitions])
            mine = _impl(lambda: [_part_view(st[0]) for st in cs.partition_sets])
            _cmp(findings, "spec", "cubeset.single.partitions", mine, ref, "single-response set vs the cube itself")
        if fam == "numeric" and lib["numeric"] is True:
            _spec_alias(case, cubes, findings)
        if fam == "numeric" and lib["numeric"] is True:
            # (transform-free on both sides: a rows transform addresses different dimensions before / after inflation)
            _spec_inflated(case, CubeSet(copy.deepcopy(case["responses"]), [None] * len(case["responses"]), case["population"], 0), findings)
        classes = json.dumps(lib["partition_sets"])[:200]
        key = (fam, classes, repr(last_counts)[:120])
    else:
        key = (fam, json.dumps(cubes))
    return findings, key


def _impl_raw(fn):
    """like call_impl but returns the live object"""
    import warnings
    try:
        with warnings.catch_warnings():
            warnings.simplefilter("ignore")
            return fn()
    except Exception as e:  # noqa
        return {"raises": type(e).__name__}


DECLARED = ["mean", "median", "stddev", "sum", "valid_count_unweighted", "valid_count_weighted"]


def _plain(r):
    r = json.loads(r) if isinstance(r, str) else r
    return r.get("value", r) if isinstance(r, dict) else r


def _spec_forms(case, findings):
    """a set given as JSON text / {"value": ...} envelopes is the set of the plain dicts (F41 for augmented sets)"""
    from cr.cube.cube import CubeSet
    rs = case["responses"]
    if all(isinstance(r, dict) and "value" not in r for r in rs):
        return

    def view(responses):
        cs = CubeSet(copy.deepcopy(responses), [None] * len(responses), case["population"], 0)
        return [[[type(p).__name__, _counts(p, False)] for p in st] for st in cs.partition_sets]
    a = _impl(lambda: view(rs))
    b = _impl(lambda: view([_plain(r) for r in rs]))
    ok, where = common.deep_close(a, b)
    if not ok:
        findings.append({"kind": "spec", "locus": "cubeset.response_forms.partition_sets",
                         "detail": "text / envelope responses vs the same plain dicts%s: forms=%s plain=%s" % (where, _short(a), _short(b))})


def _spec_augment_labels(case, cubes, findings):
    """an augmented single-column filter cube shows, on the row of every summary LABEL, the filter cube's own count for that
    label, and 0 on the rows it did not have (judged where the summary's ids are its positions, the filter's labels are int /
    str labels of the summary in the summary's order)"""
    rs = [_plain(r) for r in case["responses"]]

    def els(r):
        return r["result"]["dimensions"][0]["type"]["elements"]

    def is_label(v):
        return isinstance(v, (int, str))       # (bool is an int)
    S = els(rs[0])
    s_valid = [e for e in S if not isinstance(e["value"], dict)]
    if any(e["id"] != i for i, e in enumerate(s_valid)) or not all(is_label(e["value"]) for e in s_valid):
        return
    s_vals = [e["value"] for e in s_valid]
    for j in range(1, len(rs)):
        r = rs[j]
        if not r["result"].get("is_single_col_cube") or "count" not in r["result"]["measures"]:
            continue
        if len(r["result"]["counts"]) == len(rs[0]["result"]["counts"]):
            continue
        f_valid = [e for e in els(r) if not isinstance(e["value"], dict)]
        f_vals = [e["value"] for e in f_valid]
        if [v for v in s_vals if v in f_vals] != f_vals:
            continue        # a label unknown to the summary, or another order: outside the stated behaviour
        own = dict((repr(v), c) for v, c in zip(f_vals, r["result"]["counts"]))
        exp = [own.get(repr(v), 0) for v in s_vals]
        got = _impl(lambda: list(cubes[j]._cube_response["result"]["counts"]))
        if not isinstance(got, list) or jcanon(got[: len(exp)]) != jcanon(exp) or any(x != 0 for x in got[len(exp):]):
            findings.append({"kind": "spec", "locus": "cubeset.augment.by_label",
                             "detail": "cube %d: labels %r own counts %r -> expected %r on summary rows %r, got %r" % (j, f_vals, r["result"]["counts"], exp, s_vals, got)})


def _spec_alias(case, cubes, findings):
    """the inserted rows dimension is named after the FIRST DECLARED numeric measure of the cube (F40)"""
    for j, c in enumerate(cubes):
        r = _plain(case["responses"][j])
        ms = r["result"]["measures"]
        present = [m for m in DECLARED if m in ms]
        if not present or (ms[present[0]].get("metadata", {}).get("type", {}).get("subvariables")):
            continue
        refs = ms[present[0]].get("metadata", {}).get("references", {})
        dflt = "-".join(present)
        exp = [refs.get("alias", dflt), refs.get("name", dflt).title()]
        got = _impl(lambda: [c.dimensions[0].alias, c.dimensions[0].name])
        if got != exp:
            findings.append({"kind": "spec", "locus": "cubeset.inflate.alias",
                             "detail": "cube %d: inserted dimension (alias, name) %r, first declared numeric measure %r gives %r" % (j, got, present[0], exp)})


def _spec_inflated(case, cs, findings):
    """a column cube of a numeric-measure set keeps every value when it gets its one-row dimension"""
    from cr.cube.cube import Cube
    sets = _impl_raw(lambda: cs.partition_sets)
    if isinstance(sets, dict) or len(sets) != 1:
        return
    for j, p in enumerate(sets[0]):
        if j == 0:
            continue
        plain = _impl_raw(lambda: Cube(copy.deepcopy(case["responses"][j])).partitions)
        if isinstance(plain, dict) or len(plain) != 1:
            continue
        q = plain[0]
        qn, pn = type(q).__name__, type(p).__name__
        for name in ("counts", "unweighted_counts", "means", "sums", "stddev", "medians"):
            a = _impl(lambda: getattr(p, name))
            b = _impl(lambda: getattr(q, name))
            if isinstance(b, dict) and "raises" in b:
                continue
            if qn == "_Strand" and pn == "_Slice":
                b = [b]
            elif qn == "_Nub":
                continue
            ok, where = common.deep_close(a, b)
            if not ok:
                findings.append({"kind": "spec", "locus": "cubeset.inflate.%s" % name,
                                 "detail": "cube %d (%s -> %s): inflated%s inflated=%s plain=%s" % (j, qn, pn, where, _short(a), _short(b))})


def describe(case):
    return {"family": case["family"], "n_responses": len(case["responses"]), "mode": case.get("mode"),
            "forms": [type(r).__name__ for r in case["responses"]]}


def shrink_candidates(case):
    rs = case["responses"]
    for i in range(1, len(rs)):
        if len(rs) > 2:
            yield dict(case, responses=rs[:i] + rs[i + 1:], transforms=case["transforms"][:i] + case["transforms"][i + 1:])
