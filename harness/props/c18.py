"""C18 — results are a pure function of the arguments, whatever the access history.

Seams
  hist   REAL `Cube`s built on ONE shared response dict + ONE shared transforms dict (2-D and 3-D cubes
         with MR / CA dimensions, transforms written in every spelling incl. stale references); a random
         schedule of constructions and reads of dimension-level observables of partitions; every read
         and the caller's dicts afterwards  vs  the Lean state machine (`run_history`: model value of
         every read, fresh value on pristine arguments, dict state).
  api    random schedules (permutations, repeats, interleavings across partitions, across `Cube`s and
         `CubeSet`s sharing the SAME argument objects) over ALL public properties of Cube, CubeSet,
         _Slice, _Strand, _Nub (introspected; `row_order()` etc. with default arguments), each read
         compared with a fresh single-read evaluation on deep copies of the pristine arguments
         (exceptions compare as values).
  forms  JSON text vs dict vs {"value": dict} (and text of the envelope).
  ro     `raw_cube_array` of every measure is read-only.
  set    multi-cube CubeSets whose responses the library rewrites in place (augment_response,
         inflate), re-used like-for-like; the cross-kind point (bare Cube over a response a CubeSet
         rewrote, N5) is run and counted, not alarmed on.
"""
import copy
import json
import random

import common
import gen
from props import shim_common as sc
from props import shim_api

PROPERTY = "C18"
LEAN_MODULE = "CrCube.Props.C18"
THEOREMS = [
    "CrCube.C18.shim_idempotent_dim",
    "CrCube.C18.shim_idempotent",
    "CrCube.C18.observe_shim",
    "CrCube.C18.shimCaller_idem",
    "CrCube.C18.shim_idempotent_datetime",
    "CrCube.C18.shim_datetime_counterexample",
    "CrCube.C18.read_refines",
    "CrCube.C18.caller_orbit",
    "CrCube.C18.read_total",
    "CrCube.C18.prepare_idempotent",
    "CrCube.C18.cross_kind_differs",
    "CrCube.C18.json_forms_agree",
    "CrCube.C18.unfixed_reshim_raises_counterexample",
]
RULE = ("hist: random 2-D / 3-D cubes with MR or CA rows/columns x transforms in random spellings with stale "
        "references in every slot x random schedules of <=4 constructions on the same objects and 10-40 reads over "
        "14 dimension-level observables x partitions; api: random designs (cat/mr/ca/datetime/text, 1-3 dims) x "
        "transforms (hide/rename/explicit/fixed/opposing/prune/insertions in random spellings) x population / "
        "min-base x schedules of 25-60 reads over every public property of every object (2 cubes + a cube set "
        "on the same arguments); forms / ro / set as described. Non-trivial = the schedule reads an array-dimension "
        "cube with at least one reference the shim rewrites, at least two partitions or two cubes, and at least "
        "one repeated read; distinct = distinct (design kinds, transforms, schedule) key")
ASSUMPTIONS = [
    "analysis of a partition is a function of the caller's dicts after the in-place shims (Lean `Local`): checked "
    "at the hist seam for 14 observables, and end-to-end for all public properties against fresh evaluation",
    "N5: re-use across kinds (bare Cube over a response a CubeSet has inflated/augmented) is excluded (run, counted)",
    "datetime values are not digit strings naming an element id (DtNoCollision)",
]
TRUSTED_EXTRA = ["`copy.deepcopy` yields pristine argument copies; fresh evaluation = new objects, one read"]

OBS = ["element_ids", "hidden", "names", "order", "top", "bottom", "opposing"]


# ---------------------------------------------------------------------------------------
# hist seam


def gen_side(rng, prefix, allow_cat=True):
    if allow_cat and rng.random() < 0.35:
        return None
    n = rng.randint(1, 4)
    idpat = rng.choice(["pos", "one", "rev", "sparse", "neg"])
    kind = rng.choice(["mr", "mr", "ca"])
    mr_ins = kind == "mr" and rng.random() < 0.45
    if mr_ins:
        # MR with view insertions: first item inserted (anchored); aliases that read as ANOTHER item's element id,
        # decimal sub-variable ids (as in real payloads), real sub-variables flagged derived or not
        n = rng.randint(2, 4)
        items = shim_api.make_items(n, idpat, prefix, n_ins=1, alias_style=rng.choice(["numeric", "numeric", "plain"]),
                                    all_derived=rng.random() < 0.3, sv_style=rng.choice(["pad", "dec"]))
    else:
        items = shim_api.make_items(n, idpat, prefix)
    if kind == "ca" and rng.random() < 0.35:
        # elements without the optional `value.id` (one / all): the library has no sub-variable ids at all then
        # (CA only: an MR dimension with an id-less element cannot be built)
        noid = rng.choice(["first", "last", "all"])
        for j, it in enumerate(items):
            if noid == "all" or (noid == "first" and j == 0) or (noid == "last" and j == n - 1):
                it["no_id"] = True
    dim = shim_api.lean_dim(items, mr_ins)

    def ref(k=None):
        k = rng.randrange(n) if k is None else k
        cls = rng.choice(shim_api.SPELLS)
        return shim_api.spell(items, k, cls)

    def reflist(maxlen):
        out = []
        for _ in range(rng.randint(0, maxlen)):
            out.append(rng.choice(["zz", 999, "", "1.0", -7]) if rng.random() < 0.3 else ref())
        return out
    xf = {"elements": None, "order_ids": None, "top": None, "bottom": None, "opposing": None}
    if rng.random() < 0.7:
        entries = []
        seen = set()
        for _ in range(rng.randint(1, 3)):
            k = ref() if rng.random() < 0.8 else rng.choice(["zz", "999"])
            key = (type(k).__name__, k)
            if key in seen:
                continue
            seen.add(key)
            entries.append([k, rng.choice([{"hide": True, "name": None}, {"hide": None, "name": "R%d" % len(entries)},
                                           {"hide": False, "name": None}])])
        xf["elements"] = {"mode": "absent", "entries": entries}
    if rng.random() < 0.7:
        xf["order_ids"] = reflist(5)
    if rng.random() < 0.5:
        xf["top"] = reflist(2)
    if rng.random() < 0.5:
        xf["bottom"] = reflist(2)
    if rng.random() < 0.5:
        xf["opposing"] = {"ref": rng.choice(["zz", 999]) if rng.random() < 0.25 else ref()}
    return {"kind": kind, "items": items, "dim": dim, "xf": xf, "mr_ins": mr_ins}


def gen_hist(rng):
    rows = gen_side(rng, "r", allow_cat=True)
    cols = gen_side(rng, "c", allow_cat=True)
    if rows is None and cols is None:
        rows = gen_side(rng, "r", allow_cat=False)
    if rows is not None and cols is not None and rows["kind"] == "ca" and cols["kind"] == "ca":
        cols["kind"] = "mr"
    if rows is not None and rows["kind"] == "ca":
        cols = None                      # CA_SUBVAR x CA_CAT: the columns are the CA's categories
    if cols is not None and cols["kind"] == "ca":
        rows = None                      # CA_CAT x CA_SUBVAR
    three_d = rng.random() < 0.6
    ntab = rng.randint(2, 3) if three_d else 0
    nparts = ntab if three_d else 1
    ops = [{"op_kind": "new"}]
    ncubes = 1
    for _ in range(rng.randint(10, 40)):
        if ncubes < 4 and rng.random() < 0.12:
            ops.append({"op_kind": "new"})
            ncubes += 1
        else:
            ops.append({"op_kind": "read", "cube": rng.randrange(ncubes), "part": rng.randrange(nparts),
                        "prop": rng.randrange(14)})
            if rng.random() < 0.3:       # immediate or later repeat
                ops.append(dict(ops[-1]))
    return {"t": "hist", "rows": rows, "cols": cols, "ntab": ntab, "nparts": nparts, "ops": ops,
            "seed": rng.randrange(1 << 30)}


def hist_build(case):
    """-> (response dict, transforms dict): the caller-owned objects"""
    rng = random.Random(case["seed"])
    vars_ = []
    if case["ntab"]:
        vars_.append(gen.gen_var(rng, "cat", "t", n=case["ntab"], allow_missing=False))

    def var_of(side, alias):
        if side is None:
            return gen.gen_var(rng, "cat", alias, n=rng.randint(2, 3), allow_missing=True, min_valid=2)
        items = [{k: it[k] for k in ("id", "alias", "subvar_id", "name")} for it in side["items"]]
        if side["kind"] == "mr":
            return gen.Var("mr", alias, cats=copy.deepcopy(gen.MR_CATS), items=items)
        return gen.Var("ca", alias, cats=gen.gen_cats(rng, 3, True, "some", 2), items=items)
    rows, cols = case["rows"], case["cols"]
    if rows is not None and rows["kind"] == "ca":
        vars_.append(var_of(rows, "r"))
    elif cols is not None and cols["kind"] == "ca":
        v = var_of(cols, "c")
        v.ca_transposed = True
        vars_.append(v)
    else:
        vars_.append(var_of(rows, "r"))
        vars_.append(var_of(cols, "c"))
    survey = gen.gen_survey(rng, vars_, n_resp=rng.randint(5, 25), weighted=False, skew=False)
    resp = gen.cube_response(vars_, survey, False)
    for side, alias in ((rows, "r"), (cols, "c")):
        if side is not None and side.get("mr_ins"):
            shim_api.add_mr_insertions(resp, alias, side["items"])
        if side is not None and any(it.get("no_id") for it in side["items"]):
            shim_api.drop_subvar_ids(resp, alias, side["items"])
    tr = {}
    for side, name in ((rows, "rows_dimension"), (cols, "columns_dimension")):
        if side is None:
            continue
        x = dict(side["xf"], opposing=None)
        t = sc.real_xf(x)
        if t:
            tr[name] = t
    if rng.random() < 0.5:
        tr["pairwise_indices"] = {"only_larger": False, "alpha": rng.choice([0.05, 0.3, [0.1, 0.45]])}
    # an opposing-element reference to an item of dimension S lives in the OTHER dimension's order dict
    for side, other in ((rows, "columns_dimension"), (cols, "rows_dimension")):
        if side is not None and side["xf"]["opposing"] is not None:
            tr.setdefault(other, {}).setdefault("order", {})["element_id"] = side["xf"]["opposing"]["ref"]
    return resp, tr


def part_observe(part, p, tr):
    """observable `p` of a REAL partition (lazily through the partition's own Dimension objects)"""
    from cr.cube.collator import ExplicitOrderCollator, SortByValueCollator
    from cr.cube.enums import ORDER_FORMAT, DIMENSION_TYPE as DT
    dims = part._dimensions
    s = p % 2
    d = dims[s]
    if d.dimension_type not in (DT.MR_SUBVAR, DT.CA_SUBVAR, DT.NUM_ARRAY):
        return None
    what = OBS[p // 2]
    # every observable of a side looks at that side's Dimension (as the model's `ensure` does): both of its shims run
    d._dimension_dict, d._dimension_transforms_dict
    if what == "element_ids":
        return [sc.canon_ref(e) for e in d.element_ids]
    if what == "hidden":
        return list(d.hidden_idxs)
    if what == "names":
        return [e._element_transforms.name for e in d.valid_elements]
    if what == "order":
        return [idx for _, idx, _ in ExplicitOrderCollator(d, (), ORDER_FORMAT.SIGNED_INDEXES)._element_order_descriptors]
    if what in ("top", "bottom"):
        sv = SortByValueCollator(d, [], [], (), ORDER_FORMAT.SIGNED_INDEXES)
        ids = d.order_spec.top_fixed_ids if what == "top" else d.order_spec.bottom_fixed_ids
        return list(sv._iter_fixed_idxs(ids))
    # opposing: the reference lives in the other dimension's order dict; it is read from the caller's
    # transforms dict directly (going through the other Dimension would run ITS shim as a side effect)
    od = (tr.get("columns_dimension" if s == 0 else "rows_dimension") or {}).get("order") or {}
    if "element_id" not in od:
        return None
    t = d.translate_element_id(od["element_id"])
    try:
        return {"idx": d.element_ids.index(t)}
    except ValueError:
        return {"idx": None}


def F(kind, locus, detail):
    return {"kind": kind, "locus": locus, "detail": detail[:1000]}


def eval_hist(case, louts, ctx):
    from cr.cube.cube import Cube
    lo = louts[0]
    findings = []
    resp, tr = hist_build(case)
    desc = "rows=%s cols=%s nparts=%d transforms=%s" % (
        case["rows"] and (case["rows"]["kind"], [(i["id"], i["alias"], i["subvar_id"]) for i in case["rows"]["items"]]),
        case["cols"] and (case["cols"]["kind"], [(i["id"], i["alias"], i["subvar_id"]) for i in case["cols"]["items"]]),
        case["nparts"], json.dumps(tr))
    cubes = []
    seen = set()
    repeated = False
    untouchable = sc.unshimmed_part(tr)
    for i, (op, mread, fresh) in enumerate(zip(case["ops"], lo["reads"], lo["fresh"])):
        bad = sc.non_json_path(tr)
        if bad:
            findings.append(F("spec", "hist.caller-dict.non-list-value",
                              "%s: after op #%d the caller's transforms dict holds a value that is not plain data: %s "
                              "(a one-shot iterator is empty for every reader but the first)" % (desc, i - 1, bad)))
            return findings, None
        if op["op_kind"] == "new":
            cubes.append(Cube(resp, transforms=tr))       # the SAME response and transforms objects
            continue
        if op["cube"] >= len(cubes) or op["part"] >= case["nparts"]:
            if mread != "invalid":
                findings.append(F("model", "seam.hist.invalid", "op #%d: model %r for a read of a non-existent object" % (i, mread)))
            continue
        key = (op["cube"], op["part"], op["prop"])
        repeated = repeated or key in seen
        seen.add(key)
        try:
            parts = cubes[op["cube"]].partitions
            if len(parts) != case["nparts"]:
                findings.append(F("spec", "hist.partition-count", "%s: cube %d reports %d partitions, the design has %d" %
                                  (desc, op["cube"], len(parts), case["nparts"])))
                return findings, None
            val = part_observe(parts[op["part"]], op["prop"], tr)
        except common.HarnessFault:
            raise
        except Exception as e:  # noqa
            first = not any(o2["op_kind"] == "read" for o2 in case["ops"][:i])
            findings.append(F("spec", "hist.read-raises-first" if first else "hist.reshim-raises",
                              "%s: op #%d read(cube %d, partition %d, %s of %s) raises %s after %d earlier ops; a fresh "
                              "evaluation gives %r" % (desc, i, op["cube"], op["part"], OBS[op["prop"] // 2],
                                                       "rows" if op["prop"] % 2 == 0 else "columns", type(e).__name__, i, fresh)))
            return findings, None
        if val != fresh:
            findings.append(F("spec", "hist.read-differs-from-fresh",
                              "%s: op #%d read(cube %d, partition %d, %s of %s) = %r, fresh evaluation on pristine "
                              "arguments = %r" % (desc, i, op["cube"], op["part"], OBS[op["prop"] // 2],
                                                  "rows" if op["prop"] % 2 == 0 else "columns", val, fresh)))
        if val != mread:
            findings.append(F("model", "seam.hist.read", "%s: op #%d impl %r model %r" % (desc, i, val, mread)))
        if len(findings) > 4:
            return findings, None
    # caller-owned dicts afterwards
    bad = sc.non_json_path(tr)
    if bad:
        findings.append(F("spec", "hist.caller-dict.non-list-value",
                          "%s: after the schedule the caller's transforms dict holds a value that is not plain data: %s" % (desc, bad)))
        return findings, None
    now = sc.unshimmed_part(tr)
    if now != untouchable:
        findings.append(F("spec", "hist.caller-dict.key-changed",
                          "%s: entries of the caller's transforms dict that hold no element references changed: %s -> %s" %
                          (desc, sc.jdump(untouchable), sc.jdump(now))))
    nd = len(resp["result"]["dimensions"])
    for name, side, after, dim_pos in (("rows_dimension", case["rows"], lo["rows_after"], None),
                                       ("columns_dimension", case["cols"], lo["cols_after"], None)):
        if side is None:
            continue
        got = sc.model_xf(tr.get(name, {}))
        got["opposing"] = None
        want = sc.norm_model_xf(dict(after["xf"], opposing=None))
        if got != want:
            findings.append(F("model", "seam.hist.transforms-after", "%s: %s after schedule %s, model %s" %
                              (desc, name, sc.jdump(got), sc.jdump(want))))
        # the subvariables dimension dict of that side
        alias = "r" if name == "rows_dimension" else "c"
        for dd in resp["result"]["dimensions"]:
            if dd["references"].get("alias") == alias and dd["type"]["class"] == "enum":
                sa = [e.get("subvar_alias") for e in dd["type"]["elements"]]
                wa = [it["subvar_alias"] for it in after["dim"]["items"]]
                # the dimension-dict shim may ALSO run at cube level (`Dimensions.from_dicts` looks at the
                # `.alias` of the other dimensions): it is idempotent and `translate` ignores what it writes
                # (theorem observe_shim), so the model's "not yet" is compared one-sidedly
                aliases = [it["alias"] for it in after["dim"]["items"]]
                if sa != wa and not (all(w is None for w in wa) and sa == aliases):
                    findings.append(F("model", "seam.hist.dimension-after", "%s: %s subvar_alias %r model %r" % (desc, name, sa, wa)))
    rewrites = any(s is not None and any(s["xf"][k] for k in ("elements", "order_ids", "top", "bottom"))
                   for s in (case["rows"], case["cols"]))
    key = None
    if rewrites and repeated and (case["nparts"] > 1 or len(cubes) > 1):
        key = ("hist", sc.jdump(tr), case["nparts"], len(case["ops"]))
    ctx.count("hist-cubes:%d" % len(cubes))
    ctx.count("hist-nparts:%d" % case["nparts"])
    return findings, key


# ---------------------------------------------------------------------------------------
# api seam: every public property, random schedules, fresh evaluation


def public_reads(obj):
    """names of public properties (+ a few zero-argument methods) of an object's class"""
    import inspect
    from cr.cube.util import lazyproperty
    cls = type(obj)
    out = []
    for n in dir(cls):
        if n.startswith("_"):
            continue
        a = inspect.getattr_static(cls, n)
        if isinstance(a, (lazyproperty, property)):
            out.append(n)
    for m in ("row_order", "column_order"):
        if hasattr(cls, m):
            out.append(m + "()")
    if hasattr(cls, "pairwise_significance_t_stats"):
        out += ["pairwise_significance_t_stats(0)", "pairwise_significance_p_vals(0)"]
    return sorted(out)


def canon(x, depth=0):
    import enum
    import numpy as np
    if isinstance(x, enum.Enum):
        return "enum:%s" % x.name
    if x is None or isinstance(x, (bool, int, float, str)):
        return x
    if isinstance(x, np.ma.MaskedArray):
        return {"masked": canon(x.filled(np.nan).tolist(), depth + 1), "mask": canon(np.ma.getmaskarray(x).tolist(), depth + 1)}
    if isinstance(x, np.ndarray):
        if x.dtype == object:
            return [canon(y, depth + 1) for y in x.tolist()]
        return canon(x.tolist(), depth + 1)
    if isinstance(x, np.generic):
        return canon(x.item(), depth + 1)
    if isinstance(x, (list, tuple)):
        return [canon(y, depth + 1) for y in x]
    if isinstance(x, (set, frozenset)):
        return sorted((canon(y, depth + 1) for y in x), key=repr)
    if isinstance(x, dict):
        return {str(k): canon(v, depth + 1) for k, v in x.items()}
    if isinstance(x, range):
        return list(x)
    return "obj:%s" % type(x).__name__


def read(obj, name):
    import warnings
    try:
        with warnings.catch_warnings():
            warnings.simplefilter("ignore")
            if name.endswith("()"):
                v = getattr(obj, name[:-2])()
            elif name.endswith("(0)"):
                v = getattr(obj, name[:-3])(0)
            else:
                v = getattr(obj, name)
            return canon(v)
    except Exception as e:  # noqa
        return {"raises": type(e).__name__}


KINDS = ["cat", "cat", "mr", "mr", "ca", "datetime", "text", "cat_date"]


def gen_api(rng):
    nd = rng.choice([1, 2, 2, 2, 3, 3])
    kinds = [rng.choice(KINDS) for _ in range(nd)]
    if kinds.count("ca") > 1:
        first = kinds.index("ca")
        kinds = [k if k != "ca" or i == first else "mr" for i, k in enumerate(kinds)]
    if "ca" in kinds and nd == 3:
        kinds = kinds[:2]
    if not any(k in ("mr", "ca") for k in kinds) and rng.random() < 0.8:
        kinds[-1] = "mr"
    nsched = rng.randint(25, 60)
    return {"t": "api", "kinds": kinds, "seed": rng.randrange(1 << 30), "nsched": nsched,
            "population": rng.choice([None, None, 1000, 12345]), "min_base": rng.choice([0, 0, 0, 5, 30]),
            "with_set": rng.random() < 0.5, "ncubes": rng.choice([1, 2, 2]),
            "mrins": rng.random() < 0.35, "holes": rng.random() < 0.2, "numeric_all": rng.random() < 0.3,
            "pairwise": rng.choice([None, 0.05, 0.3, [0.1, 0.45]]), "measures": rng.random() < 0.3}


def gen_waves(rng):
    """one transforms dict with id-less subtotal insertions, re-used for two waves of the same question whose valid
    categories differ (see `reuse_check`)"""
    kinds = rng.choice([["cat"], ["cat"], ["cat", "cat"], ["cat", "mr"], ["mr", "cat"], ["cat", "cat", "cat"]])
    return {"t": "api", "kinds": kinds, "seed": rng.randrange(1 << 30), "nsched": rng.randint(6, 12),
            "population": rng.choice([None, 1000]), "min_base": 0, "with_set": False, "ncubes": rng.choice([1, 2]),
            "mrins": False, "holes": False, "numeric_all": False, "no_missing": True, "waves": True, "pairwise": None,
            "measures": False}


def gen_diffs(rng):
    """slices with subtotal DIFFERENCES (kwargs.negative) on rows and columns of plain and dated categoricals and a
    population: the population measures blank differences, the proportion measures they are built from must not
    notice -- whichever is read first"""
    kinds = rng.choice([["cat", "cat"], ["cat", "cat"], ["cat_date", "cat"], ["cat", "cat_date"], ["cat_date", "cat_date"],
                        ["cat", "cat", "cat"], ["cat", "cat_date", "cat"]])
    return {"t": "api", "kinds": kinds, "seed": rng.randrange(1 << 30), "nsched": rng.randint(6, 12),
            "population": rng.choice([1000, 12345]), "min_base": 0, "with_set": False, "ncubes": 1,
            "mrins": False, "holes": False, "numeric_all": rng.random() < 0.5, "no_missing": rng.random() < 0.7,
            "diffs": True, "focus": "population", "pairwise": None, "measures": False}


def gen_smooth(rng):
    """categorical-date columns (rows for a strand) with a smoother transform: supported, defaulted, UNSUPPORTED function
    names, good and bad windows; a read that raises must keep raising, a read that falls back must keep falling back"""
    kinds = rng.choice([["cat", "cat_date"], ["cat", "cat_date"], ["cat_date", "cat_date"], ["mr", "cat_date"],
                        ["cat", "cat", "cat_date"], ["cat_date"]])
    sm = {"function": rng.choice(["one_sided_moving_avg", None, "unsupported_fn", "unsupported_fn", "box"]),
          "window": rng.choice([2, 3, 2, 0, 1, 99, None])}
    return {"t": "api", "kinds": kinds, "seed": rng.randrange(1 << 30), "nsched": rng.randint(8, 16),
            "population": rng.choice([None, 1000]), "min_base": 0, "with_set": False, "ncubes": rng.choice([1, 2]),
            "mrins": False, "holes": False, "numeric_all": True, "no_missing": rng.random() < 0.6, "pairwise": None,
            "measures": rng.random() < 0.5, "smooth": {k: v for k, v in sm.items() if v is not None}, "focus": "smooth"}


def gen_scale(rng):
    """cubes with numeric values on every category and NaN / null holes in the weighted count payload:
    the scale-mean / median / std-dev family reads (and rewrites?) the same cached count arrays"""
    kinds = rng.choice([["cat"], ["cat"], ["cat"], ["cat_date"], ["cat", "cat"], ["cat", "mr"], ["mr", "cat"], ["cat_date", "cat"],
                        ["cat", "cat", "cat"]])
    return {"t": "api", "kinds": kinds, "seed": rng.randrange(1 << 30), "nsched": rng.randint(15, 30),
            "population": rng.choice([None, 1000]), "min_base": 0, "with_set": rng.random() < 0.3, "ncubes": 1,
            "mrins": False, "holes": True, "numeric_all": True, "focus": "scale", "no_missing": rng.random() < 0.7,
            "measures": rng.random() < 0.5}


def api_build(case):
    """pristine (response, transforms)"""
    rng = random.Random(case["seed"])
    vars_ = []
    ins_items = {}
    for i, k in enumerate(case["kinds"]):
        v = gen.gen_var(rng, k, "v%d" % i, n=rng.randint(3, 4) if case.get("waves") else rng.randint(2, 4), min_valid=2,
                        numeric="all" if case.get("numeric_all") else "some",
                        allow_missing=not case.get("no_missing"))
        if k == "mr" and case.get("mrins") and len(v.items) >= 2:
            # MR with view insertions whose aliases read as ANOTHER item's element id (legal, colliding)
            n = len(v.items)
            ids = [it["id"] for it in v.items]
            for j, it in enumerate(v.items):
                it["alias"] = str(ids[(j + 1) % n])
            ins_items[v.alias] = [dict(it, anchor=(j == 0), derived=(j == 0)) for j, it in enumerate(v.items)]
        vars_.append(v)
    weighted = rng.random() < 0.5 or bool(case.get("holes"))
    survey = gen.gen_survey(rng, vars_, n_resp=rng.randint(8, 40), weighted=weighted)
    extra = None
    if case.get("measures"):
        ncell = 1
        for x in gen.raw_shape(vars_):
            ncell *= x
        vals = [0.5, 1, 1.5, 2.25, 3, 4.5, 7, 10.75]
        extra = {m: [rng.choice(vals) + (i % 3) for i in range(ncell)] for m in ("mean", "sum", "stddev", "median")}
        extra["valid_count_unweighted"] = [rng.randint(1, 9) for _ in range(ncell)]
        extra["valid_count_weighted"] = [rng.choice(vals) for _ in range(ncell)]
    resp = gen.cube_response(vars_, survey, True, extra_measures=extra)
    for alias, items in ins_items.items():
        shim_api.add_mr_insertions(resp, alias, items)
    if case.get("holes"):
        data = resp["result"]["measures"]["count"]["data"]
        if data != resp["result"]["counts"]:
            for _ in range(rng.randint(1, 2)):
                data[rng.randrange(len(data))] = rng.choice([float("nan"), None])
    # apparent dimensions and their transforms
    app = []
    for v in vars_:
        if v.kind == "ca":
            app += [("arr", v), ("cacat", v)] if not v.ca_transposed else [("cacat", v), ("arr", v)]
        elif v.kind == "mr":
            app.append(("arr", v))
        else:
            app.append((v.kind, v))
    sides = app[-2:] if len(app) >= 2 else app[-1:]
    names = ["rows_dimension", "columns_dimension"][:len(sides)]
    tr = {}
    for name, (k, v) in zip(names, sides):
        t = {}
        if k == "arr":
            items = v.items
            n = len(items)

            def ref(j=None):
                it = items[rng.randrange(n) if j is None else j]
                return rng.choice([it["alias"], it["subvar_id"], it["id"], str(it["id"])])

            def lst(m):
                return [rng.choice(["zz", 999, "1.5"]) if rng.random() < 0.3 else ref() for _ in range(rng.randint(1, m))]
            if rng.random() < 0.6:
                e = {}
                for _ in range(rng.randint(1, 2)):
                    e[rng.choice(["zz"]) if rng.random() < 0.2 else ref()] = rng.choice([{"hide": True}, {"name": "Renamed"}])
                t["elements"] = e
            r = rng.random()
            if r < 0.4:
                t["order"] = {"type": "explicit", "element_ids": lst(n + 2)}
            elif r < 0.7:
                t["order"] = {"type": "label", "direction": rng.choice(["ascending", "descending"]),
                              "fixed": {"top": lst(2), "bottom": lst(2)}}
        else:
            ids = [c["id"] for c in v.cats]
            if rng.random() < 0.4:
                t["elements"] = {str(rng.choice(ids)): {"hide": True}}
            if rng.random() < 0.3:
                t["order"] = {"type": "explicit", "element_ids": rng.sample(ids, len(ids)) + [999]}
            if case.get("diffs") and k in ("cat", "cat_date") and len(ids) >= 2:
                valid = [c["id"] for c in v.cats if not c["missing"]]
                a, b = valid[0], valid[-1]
                ins = [{"anchor": rng.choice(["top", "bottom", a]), "name": "Diff", "function": "subtotal", "args": [a],
                        "kwargs": {"positive": [a], "negative": [b]}}]
                if rng.random() < 0.6:
                    ins.append({"anchor": "bottom", "name": "Sum", "function": "subtotal", "args": valid[:2],
                                "kwargs": {"positive": valid[:2]}})
                if rng.random() < 0.4 and len(valid) >= 3:
                    ins.append({"anchor": "top", "name": "Diff2", "function": "subtotal", "args": valid[:2],
                                "kwargs": {"positive": valid[:2], "negative": valid[2:3]}})
                if rng.random() < 0.5:
                    for j, d in enumerate(ins):
                        d["id"] = j + 1
                t["insertions"] = ins
            elif k in ("cat",) and (rng.random() < 0.5 or case.get("waves")) and len(ids) >= 2:
                valid = [c["id"] for c in v.cats if not c["missing"]]
                ins = [{"anchor": "bottom", "name": "Last only", "function": "subtotal", "args": [valid[-1]]},
                       {"anchor": rng.choice(["top", "bottom", ids[0]]), "name": "Sub", "function": "subtotal",
                        "args": ids[:2], "kwargs": {"positive": ids[:2]}},
                       {"anchor": "top", "name": "Not a subtotal", "function": "other", "args": ids[:1]}]
                ins = ins[:2] if case.get("waves") else ins[rng.choice([0, 0, 1]):rng.choice([2, 2, 3])]
                if rng.random() < 0.5 and not case.get("waves"):   # explicit ids, or left to the library (it must not write them back)
                    for j, d in enumerate(ins):
                        d["id"] = j + 1
                t["insertions"] = ins
        if rng.random() < 0.3:
            t["prune"] = True
        if case.get("smooth") is not None:
            t["smoother"] = dict(case["smooth"])
        if t:
            tr[name] = t
    if case.get("pairwise") and len(sides) == 2:
        tr["pairwise_indices"] = {"only_larger": False, "alpha": case["pairwise"]}
    # sort by opposing element: reference an array item of the OTHER dimension in some spelling
    if len(sides) == 2 and rng.random() < 0.35:
        for (name, (k, v)), oname, meas in ((list(zip(names, sides))[1], "rows_dimension", "col_percent"),
                                            (list(zip(names, sides))[0], "columns_dimension", "row_percent")):
            if k == "arr" and rng.random() < 0.6:
                it = rng.choice(v.items)
                ref = rng.choice([it["alias"], it["subvar_id"], it["id"], str(it["id"]), "zz"])
                tr.setdefault(oname, {})["order"] = {"type": "opposing_element", "element_id": ref, "measure": meas,
                                                     "direction": rng.choice(["ascending", "descending"]),
                                                     "fixed": {"top": [], "bottom": []}}
                break
    return resp, tr


def make_objects(case, resp, tr, which=None):
    """objects on the given argument objects.  -> list of (label, factory) ; label identifies the object"""
    from cr.cube.cube import Cube, CubeSet
    objs = {}
    for c in range(case["ncubes"]):
        objs["cube%d" % c] = Cube(resp, transforms=tr, population=case["population"], mask_size=case["min_base"])
    if case["with_set"]:
        objs["set"] = CubeSet([resp], [tr], case["population"], case["min_base"])
    return objs


def resolve_target(objs, label):
    """label 'cube0' | 'cube0.p2' | 'set' | 'set.p1' -> object (partitions resolved lazily, as a user would)"""
    if "." not in label:
        return objs[label]
    base, p = label.split(".")
    k = int(p[1:])
    o = objs[base]
    if base == "set":
        return o.partition_sets[k][0]
    return o.partitions[k]


def eval_api(case, louts, ctx):
    findings = []
    resp0, tr0 = api_build(case)
    rng = random.Random(case["seed"] ^ 0xabcdef)
    # discover targets on a throw-away copy
    probe = make_objects(case, copy.deepcopy(resp0), copy.deepcopy(tr0))
    try:
        nparts = len(probe["cube0"].partitions)
    except Exception as e:  # noqa
        return [F("spec", "api.partitions-raises", "cube.partitions raises %s on kinds=%r transforms=%s" %
                  (type(e).__name__, case["kinds"], json.dumps(tr0)))], None
    targets = []
    for lab in probe:
        targets.append(lab)
        for k in range(nparts):
            targets.append("%s.p%d" % (lab, k))
    try:
        reads_by_target = {t: public_reads(resolve_target(probe, t)) for t in targets}
    except Exception as e:  # noqa
        return [F("spec", "api.partitions-raises", "resolving the partitions of a fresh cube / cube set raises %s on kinds=%r "
                  "transforms=%s" % (type(e).__name__, case["kinds"], json.dumps(tr0)))], None
    universe = [(t, n) for t in targets for n in reads_by_target[t]]
    sched = [rng.choice(universe) for _ in range(case["nsched"])]
    # repeats and interleavings
    sched += [rng.choice(sched) for _ in range(len(sched) // 4)]
    rng.shuffle(sched)
    # the objects under test: built on the SAME argument objects
    resp, tr = copy.deepcopy(resp0), copy.deepcopy(tr0)
    objs = make_objects(case, resp, tr)
    desc = "kinds=%s transforms=%s population=%r min_base=%r" % (case["kinds"], json.dumps(tr0), case["population"], case["min_base"])
    fresh_cache = {}

    def fresh(t, n):
        kind_t = t.replace("cube1", "cube0").replace("cube2", "cube0")
        if (kind_t, n) not in fresh_cache:
            fo = make_objects(dict(case, ncubes=1), copy.deepcopy(resp0), copy.deepcopy(tr0))
            fresh_cache[(kind_t, n)] = read(resolve_target(fo, kind_t), n)
        return fresh_cache[(kind_t, n)]
    nerr = 0
    for i, (t, n) in enumerate(sched):
        try:
            target = resolve_target(objs, t)
        except Exception as e:  # noqa
            got = {"raises": type(e).__name__}
            target = None
        if target is not None:
            got = read(target, n)
        want = fresh(t, n)
        ok, where = common.deep_close(got, want)
        if not ok:
            cls = t.split(".")[0].rstrip("0123456789")
            part = ".partition" if "." in t else ""
            raises = isinstance(got, dict) and "raises" in got and not (isinstance(want, dict) and "raises" in want)
            locus = "api.%s%s.%s" % (cls, part, "read-raises" if raises else "read-differs-from-fresh")
            findings.append(F("spec", locus, "%s: read #%d %s.%s after %s gives %s, fresh evaluation gives %s (%s)" %
                              (desc, i, t, n, [("%s.%s" % s) for s in sched[max(0, i - 6):i]],
                               json.dumps(got)[:200], json.dumps(want)[:200], where)))
            nerr += 1
            if nerr > 3:
                break
    # full sweeps: every property of a target read once in a random order on new objects, then in the REVERSE
    # order on other new objects -- between them every ordered pair (a read before b) occurs on one object
    if nerr == 0 and not case.get("waves"):       # (the wave cases are about re-use across cubes, see reuse_check)
        sweep_targets = [t for t in targets if "." in t and t.startswith("cube0")]
        if not case.get("focus"):
            sweep_targets = [rng.choice(sweep_targets)] if sweep_targets else []
        sweep_targets.append("cube0")
        if "set" in probe and rng.random() < 0.5:
            sweep_targets.append("set")
        for t in sweep_targets:
            names = list(reads_by_target[t])
            if case.get("focus") == "scale" and "." in t:
                names = [n for n in names if "scale" in n or n in ("counts", "means", "medians", "stddev", "sums", "rows_margin",
                                                                   "columns_margin", "table_proportions", "unweighted_counts",
                                                                   "rows_base", "smoothed_means")]
            if case.get("focus") == "smooth" and "." in t:
                names = [n for n in names if "smooth" in n or n in ("column_proportions", "column_percentages", "column_index",
                                                                   "means", "counts", "columns_scale_mean", "table_proportions")]
            if case.get("focus") == "population" and "." in t:
                keys = ("population", "proportion", "percentages", "std_err", "std_dev", "moe", "variances", "zscores",
                        "pvals", "column_index", "share_sum", "counts", "margin")
                names = [n for n in names if any(k in n for k in keys)]
            rng.shuffle(names)
            # ... and "a first, then everything else": an in-place edit of a shared cached array by `a` only shows
            # when nothing that caches values derived from that array was read before it
            if case.get("focus") == "population":
                # every population_* property before every proportion-like one (and, through the forward / reverse
                # sweeps and a few other firsts, the other way round)
                firsts = [n for n in names if "population" in n]
                firsts += rng.sample([n for n in names if n not in firsts], min(4, len(names) - len(firsts)))
            else:
                firsts = list(names) if case.get("focus") else rng.sample(names, min(6, len(names)))
            orders = [(names, "forward"), (names[::-1], "reverse")]
            for a in firsts:
                rest = [n for n in names if n != a]
                rng.shuffle(rest)
                orders.append(([a] + rest, "first"))
            # ... and every property read FOUR times in a row on one object: a read that raises must keep raising (the
            # same exception), a value must stay the value
            o4 = make_objects(dict(case, ncubes=1), copy.deepcopy(resp0), copy.deepcopy(tr0))
            try:
                target4 = resolve_target(o4, t)
            except Exception:  # noqa
                target4 = None
            if target4 is not None:
                for n in names:
                    want = fresh(t, n)
                    for rep in range(4):
                        got = read(target4, n)
                        ok, where = common.deep_close(got, want)
                        if not ok:
                            cls = t.split(".")[0].rstrip("0123456789")
                            part = ".partition" if "." in t else ""
                            findings.append(F("spec", "api.%s%s.reread-differs" % (cls, part),
                                              "%s: read #%d of %s.%s on one object gives %s, a fresh read gives %s (%s)" %
                                              (desc, rep + 1, t, n, sc.jdump(got)[:160], sc.jdump(want)[:160], where)))
                            nerr += 1
                            break
                    if nerr:
                        break
            if nerr:
                break
            for order, tag in orders:
                o2 = make_objects(dict(case, ncubes=1), copy.deepcopy(resp0), copy.deepcopy(tr0))
                try:
                    target = resolve_target(o2, t)
                except Exception as e:  # noqa
                    break
                for j, n in enumerate(order):
                    got = read(target, n)
                    want = fresh(t, n)
                    ok, where = common.deep_close(got, want)
                    if not ok:
                        cls = t.split(".")[0].rstrip("0123456789")
                        part = ".partition" if "." in t else ""
                        findings.append(F("spec", "api.%s%s.order-dependent" % (cls, part),
                                          "%s: %s.%s read after %s gives %s, read alone on a fresh object it gives %s (%s)" %
                                          (desc, t, n, order[max(0, j - 8):j], json.dumps(got)[:160], json.dumps(want)[:160], where)))
                        nerr += 1
                        break
                if nerr:
                    break
            if nerr:
                break
    # the caller's transforms dict afterwards: plain data, and nothing but element references rewritten
    bad = sc.non_json_path(tr)
    if bad:
        findings.append(F("spec", "api.caller-dict.non-list-value",
                          "%s: after the schedule the caller's transforms dict holds a value that is not plain data: %s "
                          "(a one-shot iterator is empty for every reader but the first)" % (desc, bad)))
    elif sc.unshimmed_part(tr) != sc.unshimmed_part(tr0):
        findings.append(F("spec", "api.caller-dict.key-changed",
                          "%s: entries of the caller's transforms dict that hold no element references changed: %s -> %s" %
                          (desc, sc.jdump(sc.unshimmed_part(tr0)), sc.jdump(sc.unshimmed_part(tr)))))
    # a second partition of the SAME Cube object with OTHER transforms (CubePartition.factory) is a fresh evaluation too
    if nerr == 0 and not findings:
        findings += factory_check(case, resp0, tr0, objs, nparts, rng, desc)
    if nerr == 0:
        findings += reuse_check(case, resp0, tr0, rng, desc, ctx)
    kinds_key = tuple(case["kinds"])
    ctx.count("api-kinds:%s" % "x".join(case["kinds"]))
    ctx.count("api-nparts:%d" % nparts)
    arr = any(k in ("mr", "ca") for k in case["kinds"])
    key = (kinds_key, json.dumps(tr0), len(sched)) if arr and tr0 and (nparts > 1 or case["ncubes"] > 1) else None
    return findings, key


def variant_response(resp0):
    """the same question in another wave: in every plain categorical dimension the last valid category does not
    exist (is missing) -- other valid categories, so other insertions are valid subtotals"""
    resp = copy.deepcopy(resp0)
    changed = False
    for d in resp["result"]["dimensions"]:
        t = d["type"]
        if t.get("class") != "categorical" or d.get("references", {}).get("subreferences"):
            continue
        valid = [c for c in t["categories"] if not c.get("missing")]
        if len(valid) >= 3:
            valid[-1]["missing"] = True
            changed = True
    return resp if changed else None


def reuse_check(case, resp0, tr0, rng, desc, ctx):
    """ONE transforms dict used for two different cubes, in both orders; the second user must see what a fresh
    evaluation on pristine copies sees"""
    from cr.cube.cube import Cube
    resp_b = variant_response(resp0)
    if resp_b is None or not tr0:
        return []
    ctx.count("api-reuse-other-cube")
    kw = dict(population=case["population"], mask_size=case["min_base"])
    for first, second, tag in ((resp_b, resp0, "variant-then-original"), (resp0, resp_b, "original-then-variant")):
        tr = copy.deepcopy(tr0)
        try:
            a = Cube(copy.deepcopy(first), transforms=tr, **kw)
            for p in a.partitions:
                for n in public_reads(p):
                    read(p, n)
            b = Cube(copy.deepcopy(second), transforms=tr, **kw)
            ref = Cube(copy.deepcopy(second), transforms=copy.deepcopy(tr0), **kw)
            bparts, rparts = b.partitions, ref.partitions
        except Exception:  # noqa
            continue
        for k, (bp, rp) in enumerate(zip(bparts, rparts)):
            names = public_reads(rp)
            rng.shuffle(names)
            names = [n for n in ("row_codes", "row_order()", "column_codes", "inserted_row_idxs", "row_labels") if n in names] + names[:30]
            for n in names:
                got, want = read(bp, n), read(rp, n)
                ok, where = common.deep_close(got, want)
                if not ok:
                    return [F("spec", "api.reuse-other-cube.differs-from-fresh",
                              "%s (%s): a transforms dict already used for another cube (other valid categories) gives "
                              "partition %d .%s = %s, a fresh evaluation on pristine copies gives %s (%s); dict now %s" %
                              (desc, tag, k, n, sc.jdump(got)[:160], sc.jdump(want)[:160], where, sc.jdump(tr)[:300]))]
    return []


def other_transforms(case, resp0, tr0, rng):
    """transforms that differ from `tr0` in what they insert / hide / rename on each dimension"""
    from cr.cube.cube import Cube
    t2 = copy.deepcopy(tr0)
    dims = Cube(copy.deepcopy(resp0)).dimensions[-2:]
    for name, d in zip(["rows_dimension", "columns_dimension"], dims):
        dt = dict(t2.get(name) or {})
        ids = [e for e in d.element_ids]
        tname = d.dimension_type.name
        if tname in ("CAT", "CA_CAT") and len(ids) >= 2 and all(isinstance(i, int) for i in ids):
            dt["insertions"] = [{"anchor": "top", "name": "Other sub", "function": "subtotal", "args": ids[-2:],
                                 "kwargs": {"positive": ids[-2:]}, "id": 7}]
        elif ids:
            e = dict(dt.get("elements") or {})
            e[ids[-1]] = {"name": "Factory renamed"}
            dt["elements"] = e
        dt.pop("prune", None)
        t2[name] = dt
    return t2


def factory_check(case, resp0, tr0, objs, nparts, rng, desc):
    from cr.cube.cube import Cube
    from cr.cube.cubepart import CubePartition
    cube = objs["cube0"]
    k = rng.randrange(nparts)
    t2 = other_transforms(case, resp0, tr0, rng)
    try:
        first = cube.partitions[k]
        for n in ("counts", "row_labels", "column_labels", "columns_margin", "rows_margin"):
            read(first, n)                       # the cube's own partition has been looked at
        part = CubePartition.factory(cube, slice_idx=k, transforms=copy.deepcopy(t2), population=cube._population,
                                     ca_as_0th=cube._ca_as_0th, mask_size=cube._mask_size)
        ref = Cube(copy.deepcopy(resp0), transforms=copy.deepcopy(t2), population=case["population"],
                   mask_size=case["min_base"]).partitions[k]
    except Exception as e:  # noqa
        return []
    names = [n for n in public_reads(ref) if n not in ("pairwise_significance_tests",)]
    rng.shuffle(names)
    out = []
    for n in names[:40]:
        got, want = read(part, n), read(ref, n)
        ok, where = common.deep_close(got, want)
        if not ok:
            out.append(F("spec", "api.factory-partition.differs-from-fresh",
                         "%s: CubePartition.factory(cube, %d, transforms=%s).%s on a Cube whose own partition was read "
                         "before gives %s, a fresh Cube with those transforms gives %s (%s)" %
                         (desc, k, sc.jdump(t2), n, sc.jdump(got)[:160], sc.jdump(want)[:160], where)))
            break
    return out


# ---------------------------------------------------------------------------------------
# forms / read-only / cube sets


def eval_forms(case, louts, ctx):
    from cr.cube.cube import Cube
    findings = []
    resp0, tr0 = api_build(case)
    forms = {"dict": lambda: copy.deepcopy(resp0), "text": lambda: json.dumps(resp0),
             "envelope": lambda: {"value": copy.deepcopy(resp0)}, "envelope-text": lambda: json.dumps({"value": resp0}),
             "shoji": lambda: {"element": "shoji:view", "value": copy.deepcopy(resp0)}}
    names = None
    base = None
    for fname, mk in forms.items():
        cube = Cube(mk(), transforms=copy.deepcopy(tr0), population=case["population"], mask_size=case["min_base"])
        vals = {}
        if names is None:
            names = [n for n in public_reads(cube) if n not in ("partitions", "dimensions")]
        for n in names:
            vals["cube." + n] = read(cube, n)
        parts, exc = sc.exc_name(lambda: cube.partitions)
        if exc:
            vals["partitions"] = {"raises": exc}
        else:
            for k, p in enumerate(parts):
                for n in ("counts", "row_labels", "shape", "table_name", "row_order()"):
                    if hasattr(type(p), n.replace("()", "")):
                        vals["p%d.%s" % (k, n)] = read(p, n)
        if base is None:
            base = vals
            continue
        ok, where = common.deep_close(vals, base)
        if not ok:
            findings.append(F("spec", "forms.%s" % fname, "kinds=%s: response given as %s differs from dict form at %s" %
                              (case["kinds"], fname, where)))
    # read-only raw arrays
    import numpy as np
    cube = Cube(copy.deepcopy(resp0))
    ms = cube._measures
    for mname in ("unweighted_counts", "weighted_counts", "means", "sums", "stddev", "unweighted_valid_counts",
                  "weighted_valid_counts", "overlaps", "valid_overlaps", "covariance", "medians", "weighted_squared_counts"):
        m, exc = sc.exc_name(lambda: getattr(ms, mname))
        if exc or m is None:
            continue
        arr = m.raw_cube_array
        if arr is None:
            continue
        ctx.count("ro-arrays")
        if arr.flags.writeable:
            findings.append(F("spec", "ro.raw_cube_array", "kinds=%s: %s.raw_cube_array is writeable" % (case["kinds"], mname)))
        else:
            try:
                arr[(0,) * arr.ndim] = 12345
                findings.append(F("spec", "ro.raw_cube_array", "kinds=%s: %s.raw_cube_array accepted a write" % (case["kinds"], mname)))
            except (ValueError, IndexError):
                pass
    findings += lazy_slot_findings()
    # the lazyproperty descriptor is read-only
    try:
        cube.ndim = 99
        findings.append(F("spec", "ro.lazyproperty-set", "Cube.ndim accepted an assignment"))
    except AttributeError:
        pass
    return findings, ("forms", tuple(case["kinds"]))


_LAZY_SLOTS = None


def lazy_slot_findings():
    """structural form of "read order cannot matter": every lazyproperty caches under ITS OWN attribute name
    (the cache key is the wrapped function's `__name__`); two properties sharing a slot return each other's value"""
    global _LAZY_SLOTS
    if _LAZY_SLOTS is None:
        import inspect
        import sys as _sys
        from cr.cube.util import lazyproperty
        out = []
        for mname, mod in list(_sys.modules.items()):
            if not mname.startswith("cr.cube") or mod is None:
                continue
            for cname, cls in inspect.getmembers(mod, inspect.isclass):
                if getattr(cls, "__module__", "") != mname:
                    continue
                # all lazyproperty objects visible on the class (own + inherited, nearest definition wins)
                seen = {}
                for klass in cls.__mro__:
                    for attr, val in vars(klass).items():
                        if isinstance(val, lazyproperty) and attr not in seen:
                            seen[attr] = val
                slots = {}
                for attr, val in seen.items():
                    slots.setdefault(getattr(val, "__name__", attr), []).append((attr, val))
                for slot, users in slots.items():
                    distinct = []
                    for attr, val in users:
                        if not any(val is v for _, v in distinct):
                            distinct.append((attr, val))      # `b = a` aliases of one property share a slot harmlessly
                    if len(distinct) > 1:
                        out.append(F("spec", "ro.lazyproperty-cache-slot",
                                     "%s.%s: the distinct lazy properties %s all cache their value under the name %r: "
                                     "each returns whichever of them was read first" %
                                     (mname, cname, sorted(a for a, _ in distinct), slot)))
        _LAZY_SLOTS = out
    return list(_LAZY_SLOTS)


def text_resp(values, counts, single=False):
    els = [{"id": i, "missing": False, "value": v} for i, v in enumerate(values)]
    dim = {"derived": True, "references": {"alias": "t", "name": "T"},
           "type": {"class": "enum", "elements": els,
                    "subtype": {"class": "text", "missing_reasons": {"No Data": -1}, "missing_rules": {}}}}
    meta = {"derived": True, "references": {}, "type": {"class": "numeric", "integer": True,
                                                          "missing_reasons": {"No Data": -1}, "missing_rules": {}}}
    res = {"dimensions": [dim], "counts": list(counts), "element": "crunch:cube",
           "measures": {"count": {"data": list(counts), "metadata": meta, "n_missing": 0}}, "missing": 0, "n": sum(counts)}
    if single:
        res["is_single_col_cube"] = True
    return {"query": {}, "result": res}


def numeric_resps(rng):
    v1 = gen.gen_var(rng, "cat", "g", n=rng.randint(2, 4), allow_missing=False)
    sv = gen.gen_survey(rng, [v1], n_resp=rng.randint(5, 25), weighted=False)
    r1 = gen.cube_response([v1], sv, False, extra_measures={"mean": [rng.choice([1.5, 2.25, 3.0, 4.5]) for _ in v1.cats]})
    mref = {"alias": "age", "name": "Age"}
    r1["result"]["measures"]["mean"]["metadata"]["references"] = dict(mref)
    meta = {"derived": True, "references": {}, "type": {"class": "numeric", "integer": False,
                                                          "missing_reasons": {"No Data": -1}, "missing_rules": {}}}
    r0 = {"query": {}, "result": {"dimensions": [], "counts": [len(sv)], "element": "crunch:cube", "missing": 0, "n": len(sv),
                                  "measures": {"count": {"data": [len(sv)], "metadata": copy.deepcopy(meta), "n_missing": 0},
                                               "mean": {"data": [2.5], "metadata": dict(copy.deepcopy(meta), references=dict(mref)),
                                                        "n_missing": 0}}}}
    return [r0, r1]


def set_observe(cs):
    out = {}
    for n in public_reads(cs):
        if n != "partition_sets":
            out["set." + n] = read(cs, n)
    ps, exc = sc.exc_name(lambda: cs.partition_sets)
    if exc:
        out["partition_sets"] = {"raises": exc}
        return out
    for i, tup in enumerate(ps):
        for j, p in enumerate(tup):
            for n in public_reads(p):
                if n in ("pairwise_significance_tests", "pairwise_indices", "pairwise_indices_alt", "summary_pairwise_indices",
                         "pairwise_means_indices", "pairwise_means_indices_alt"):
                    continue
                out["ps%d.%d.%s" % (i, j, n)] = read(p, n)
    return out


def eval_set(case, louts, ctx):
    from cr.cube.cube import Cube, CubeSet
    rng = random.Random(case["seed"])
    findings = []
    flavour = case["flavour"]
    if flavour == "numeric":
        R0 = numeric_resps(rng)
    elif flavour == "augment":
        vals = ["a", "b", "c", "d", "e"][:rng.randint(3, 5)]
        sub = sorted(rng.sample(range(len(vals)), rng.randint(1, len(vals) - 1)))
        R0 = [text_resp(vals, [rng.randint(1, 9) for _ in vals]),
              text_resp([vals[i] for i in sub], [rng.randint(1, 5) for _ in sub], True)]
        if rng.random() < 0.5:
            R0.append(text_resp(vals, [rng.randint(0, 4) for _ in vals], True))
    else:
        resp, tr = api_build(dict(case, kinds=case["kinds"]))
        R0 = [resp, copy.deepcopy(resp)]
    T0 = [{} for _ in R0]
    if flavour == "plain":
        _, tr = api_build(dict(case, kinds=case["kinds"]))
        T0 = [tr, copy.deepcopy(tr)]
    want = set_observe(CubeSet(copy.deepcopy(R0), copy.deepcopy(T0), case["population"], case["min_base"]))
    R, T = copy.deepcopy(R0), copy.deepcopy(T0)
    for rnd in range(3):
        got = set_observe(CubeSet(R, T, case["population"], case["min_base"]))     # same objects every round
        ok, where = common.deep_close(got, want)
        if not ok:
            raises = [k for k, v in got.items() if isinstance(v, dict) and "raises" in v and not (isinstance(want.get(k), dict) and "raises" in want.get(k))]
            findings.append(F("spec", "set.%s.reuse-%s" % (flavour, "raises" if raises else "differs"),
                              "CubeSet #%d on the same %s response/transform objects differs from a fresh one at %s %s" %
                              (rnd + 1, flavour, where, raises[:3])))
            break
    # round 5: responses given as JSON TEXT (immutable values).  A CubeSet that inflates / augments them must leave a
    # later Cube or CubeSet built from the very same strings exactly as a fresh evaluation on pristine dict copies
    # (nothing may be shared between objects through a cache of parsed text)
    if flavour in ("numeric", "augment") and not findings:
        def cube_observe(c):
            out = {n: read(c, n) for n in public_reads(c) if n != "partitions"}
            ps, exc = sc.exc_name(lambda: c.partitions)
            out["partitions"] = {"raises": exc} if exc else [type(p).__name__ for p in ps]
            return out
        wantc = [cube_observe(Cube(copy.deepcopy(r))) for r in R0]
        texts = [json.dumps(r) for r in R0]
        forms = [list(texts), [json.dumps({"value": r}) for r in R0]][case["seed"] % 2]     # plain text / text of an envelope
        for rnd in range(2):
            got = set_observe(CubeSet(list(forms), copy.deepcopy(T0), case["population"], case["min_base"]))
            ok, where = common.deep_close(got, want)
            if not ok:
                findings.append(F("spec", "set.%s.text-form" % flavour,
                                  "CubeSet #%d built from JSON text differs from the one built from dicts at %s" % (rnd + 1, where)))
                break
            for k, f in enumerate(forms):
                gotc = cube_observe(Cube(f))
                ok, where = common.deep_close(gotc, wantc[k])
                if not ok:
                    findings.append(F("spec", "set.%s.text-reuse" % flavour,
                                      "Cube built from the JSON text of response %d after a CubeSet used the same text differs "
                                      "from a fresh Cube on a pristine dict at %s" % (k, where)))
                    break
            if findings:
                break
        ctx.count("set-text-reuse:%s" % flavour)
    # N5: cross-kind re-use, excluded point
    if flavour in ("numeric", "augment"):
        idx = 0 if flavour == "numeric" else 1
        a = read(Cube(R[idx]), "ndim"), read(Cube(R[idx]), "counts")
        b = read(Cube(copy.deepcopy(R0[idx])), "ndim"), read(Cube(copy.deepcopy(R0[idx])), "counts")
        ctx.count("n5-cross-kind-%s:%s" % (flavour, "differs" if a != b else "same"))
    return findings, ("set", flavour, len(R0), case["seed"] % 7)


# ---------------------------------------------------------------------------------------


def generate(ctx):
    rng = ctx.rng
    cases = []
    for _ in range(ctx.n(600, 8000)):
        cases.append(gen_hist(rng))
    for _ in range(ctx.n(90, 1500)):
        cases.append(gen_api(rng))
    for _ in range(ctx.n(35, 500)):
        cases.append(gen_scale(rng))
    for _ in range(ctx.n(25, 400)):
        cases.append(gen_waves(rng))
    for _ in range(ctx.n(12, 300)):
        cases.append(gen_diffs(rng))
    for _ in range(ctx.n(20, 300)):
        cases.append(gen_smooth(rng))
    for _ in range(ctx.n(80, 600)):
        cases.append(dict(gen_api(rng), t="forms"))
    for _ in range(ctx.n(120, 900)):
        c = dict(gen_api(rng), t="set")
        c["flavour"] = rng.choice(["numeric", "augment", "plain"])
        cases.append(c)
    return cases


def side_json(s):
    if s is None:
        return None
    return {"dim": s["dim"], "xf": s["xf"]}


def lean_ops(case):
    if case["t"] == "hist":
        return [{"op": "run_history", "rows": side_json(case["rows"]), "cols": side_json(case["cols"]),
                 "nparts": case["nparts"], "ops": case["ops"]}]
    return []


def evaluate(case, louts, ctx):
    ctx.count("cases:" + case["t"])
    try:
        if case["t"] == "hist":
            return eval_hist(case, louts, ctx)
        if case["t"] == "api":
            return eval_api(case, louts, ctx)
        if case["t"] == "forms":
            return eval_forms(case, louts, ctx)
        if case["t"] == "set":
            return eval_set(case, louts, ctx)
        raise common.HarnessFault("unknown case type %r" % case.get("t"))
    except common.HarnessFault:
        raise
    except Exception as e:  # noqa
        # an exception escaping from LIBRARY code at a place where the harness expects none is a finding about
        # the library (e.g. a broken cache), not a harness fault
        import traceback
        tb = traceback.extract_tb(e.__traceback__)
        lib = [fr for fr in tb if "/cr/cube/" in fr.filename]
        if not lib:
            raise
        return [{"kind": "spec", "locus": "%s.library-raises" % case["t"],
                 "detail": "%s: %s at %s:%d (%s)" % (type(e).__name__, e, lib[-1].filename.split("/cr/cube/")[-1],
                                                    lib[-1].lineno, lib[-1].name)}], None


def describe(case):
    if case["t"] == "hist":
        return {"t": "hist", "nparts": case["nparts"], "nops": len(case["ops"]),
                "rows": case["rows"] and case["rows"]["kind"], "cols": case["cols"] and case["cols"]["kind"]}
    return {k: case[k] for k in ("t", "kinds", "population", "min_base", "ncubes", "with_set", "flavour") if k in case}


def shrink_candidates(case):
    if case["t"] == "hist":
        ops = case["ops"]
        n = len(ops)
        if n > 2:
            yield dict(case, ops=ops[:1 + (n - 1) // 2])
            for i in range(1, min(n, 40)):
                yield dict(case, ops=ops[:i] + ops[i + 1:])
        for side in ("rows", "cols"):
            s = case[side]
            if s is None:
                continue
            for slot in ("elements", "order_ids", "top", "bottom", "opposing"):
                if s["xf"][slot] is not None:
                    yield dict(case, **{side: dict(s, xf=dict(s["xf"], **{slot: None}))})
    elif case["t"] == "api":
        if case["nsched"] > 4:
            yield dict(case, nsched=case["nsched"] // 2)
        if case["with_set"]:
            yield dict(case, with_set=False)
        if case["ncubes"] > 1:
            yield dict(case, ncubes=1)
