"""Generators: respondent-level surveys, designs, and the *real* cube-response JSON for them.

Everything random comes from one `random.Random` handed in by the caller (seeded from
VERIF_SEED), so a disagreement replays exactly.

The tabulator here is the Python twin of Lean's `Spec.cubeOf` (the trusted tabulation
contract); `check` ops compare the two cell-for-cell.
"""
from fractions import Fraction
import itertools
import copy

WEIGHTS = [Fraction(0), Fraction(1, 4), Fraction(1, 2), Fraction(1), Fraction(1), Fraction(3, 2),
           Fraction(2), Fraction(3)]

TINY = Fraction(1, 2 ** 40)
NEAR1 = 1 + Fraction(1, 2 ** 20)

CAT_LIKE = ("cat", "cat_date", "datetime", "text", "binned", "logical")


class Var:
    """A survey variable.

    kind: 'cat' | 'cat_date' | 'datetime' | 'text' | 'binned'   (one raw axis)
          'mr'  (items x [selected, other, missing])
          'ca'  (items x categories) -- occupies two apparent dimensions
    """

    def __init__(self, kind, alias, cats=None, items=None, numeric_values=None, ca_transposed=False,
                 typedef_perm=None, view_insertions=None):
        self.kind = kind
        self.alias = alias
        self.cats = cats or []      # list of dict(id, missing, name, numeric_value[, date])
        self.items = items or []    # list of dict(id, alias, subvar_id, name)
        self.ca_transposed = ca_transposed  # CA rendered as CA_CAT x CA_SUBVAR
        # when set (a permutation of range(len(cats))): the typedef lists the categories in THAT order and
        # carries `order` = ids in data order; `cats` always stays in data (payload-axis) order
        self.typedef_perm = typedef_perm
        # insertions defined on the variable view (references.view.transform.insertions); transforms override them
        self.view_insertions = view_insertions

    # ---- shape / typed view ------------------------------------------------------------
    @property
    def is_array(self):
        return self.kind in ("mr", "ca")

    @property
    def raw_shape(self):
        if self.is_array:
            return [len(self.items), len(self.cats)]
        return [len(self.cats)]

    @property
    def cat_missing(self):
        return [bool(c["missing"]) for c in self.cats]

    @property
    def valid_item_pos(self):
        """raw positions of the array items not flagged missing"""
        return [k for k, it in enumerate(self.items) if not it.get("missing")]

    def lean(self):
        # the Lean model's array variable has no missing ITEMS: the harness hands it the valid items only
        # (dropping a missing item's answers), while the real cube response carries all items
        return {"kind": "arr" if self.is_array else "cat",
                "n": len(self.valid_item_pos) if self.is_array else len(self.cats),
                "catMissing": self.cat_missing, "isMR": self.kind == "mr"}

    def to_json(self):
        return {"kind": self.kind, "alias": self.alias, "cats": self.cats, "items": self.items,
                "ca_transposed": self.ca_transposed, "typedef_perm": self.typedef_perm,
                "view_insertions": self.view_insertions}

    @classmethod
    def from_json(cls, d):
        return cls(d["kind"], d["alias"], cats=copy.deepcopy(d["cats"]), items=copy.deepcopy(d["items"]),
                   ca_transposed=d.get("ca_transposed", False), typedef_perm=d.get("typedef_perm"),
                   view_insertions=copy.deepcopy(d.get("view_insertions")))

    @property
    def valid_cat_pos(self):
        return [i for i, c in enumerate(self.cats) if not c["missing"]]

    # ---- library-facing kinds (what `cube.dimension_types` will say) --------------------
    def apparent_kinds(self):
        """DK kinds of the apparent dimensions this variable contributes, in order."""
        if self.kind == "mr":
            return ["mr"]
        if self.kind == "ca":
            return ["cat", "arr"] if self.ca_transposed else ["arr", "cat"]
        return ["cat"]

    # ---- dimension dicts ---------------------------------------------------------------
    def dimension_dicts(self):
        refs = {"alias": self.alias, "name": self.alias.upper(), "description": "d " + self.alias}
        if self.view_insertions is not None and not self.is_array:
            refs["view"] = {"transform": {"insertions": copy.deepcopy(self.view_insertions)}}
        if self.kind in ("cat", "cat_date", "logical"):
            cats = []
            for c in self.cats:
                d = {"id": c["id"], "missing": c["missing"], "name": c["name"],
                     "numeric_value": c.get("numeric_value")}
                if self.kind == "cat_date" and not c.get("nodate"):
                    # a categorical-date dimension is one where ANY category carries a date
                    d["date"] = c.get("date", "2020-%02d" % (abs(c["id"]) % 12 + 1))
                if c.get("selected"):
                    d["selected"] = True
                cats.append(d)
            typedef = {"class": "categorical", "ordinal": False, "categories": cats}
            if self.typedef_perm is not None:
                typedef["order"] = [c["id"] for c in cats]
                typedef["categories"] = [cats[i] for i in self.typedef_perm]
            return [{"derived": False, "references": refs, "type": typedef}]
        if self.kind in ("datetime", "text", "binned"):
            sub = {"datetime": "datetime", "text": "text", "binned": "numeric"}[self.kind]
            els = []
            for i, c in enumerate(self.cats):
                if c["missing"]:
                    val = {"?": -1}
                elif self.kind == "datetime":
                    val = "20%02d-01-01T00:00:00" % (i + 1)
                elif self.kind == "text":
                    val = c["name"]
                else:
                    val = [i * 10, i * 10 + 10]
                els.append({"id": c["id"], "missing": c["missing"], "value": val})
            subtype = {"class": sub, "missing_reasons": {"No Data": -1}, "missing_rules": {}}
            if self.kind == "datetime":
                subtype["resolution"] = "Y"
                refs = dict(refs, format={"data": "%Y"})
            return [{"derived": True, "references": refs,
                     "type": {"class": "enum", "elements": els, "subtype": subtype}}]
        # arrays
        def _refs(it):
            r = {"alias": it["alias"], "name": it["name"], "description": it["name"]}
            if it.get("derived") and it.get("anchor") is not None:
                r["anchor"] = it["anchor"]
            return r
        subrefs = [_refs(it) for it in self.items]
        arefs = dict(refs, subreferences=subrefs)
        if self.kind == "mr":
            arefs["is_dichotomous"] = True
        els = []
        for it in self.items:
            els.append({"id": it["id"], "missing": bool(it.get("missing", False)),
                        "value": {"derived": bool(it.get("derived", False)), "id": it["subvar_id"],
                                  "references": _refs(it)}})
        if self.kind == "mr" and any(it.get("derived") for it in self.items):
            arefs["view"] = {"transform": {"insertions": [
                {"function": "any_selected", "name": it["name"], "anchor": it.get("anchor"),
                 "kwargs": {"variable": self.alias, "subvariable_ids": []}} for it in self.items if it.get("derived")]}}
        subvar_dim = {"derived": True, "references": copy.deepcopy(arefs),
                      "type": {"class": "enum", "elements": els, "subtype": {"class": "variable"}}}
        cats = []
        for c in self.cats:
            d = {"id": c["id"], "missing": c["missing"], "name": c["name"],
                 "numeric_value": c.get("numeric_value")}
            if c.get("selected"):
                d["selected"] = True
            cats.append(d)
        cat_dim = {"derived": True, "references": copy.deepcopy(arefs),
                   "type": {"class": "categorical", "ordinal": False, "categories": cats,
                            "subvariables": [it["subvar_id"] for it in self.items]}}
        if self.kind == "ca" and self.ca_transposed:
            return [cat_dim, subvar_dim]
        return [subvar_dim, cat_dim]

    # raw axes order as they appear in the cube (ca_transposed swaps the two axes)
    def raw_axes_shape(self):
        sh = self.raw_shape
        if self.kind == "ca" and self.ca_transposed:
            return [sh[1], sh[0]]
        return sh


MR_CATS = [
    {"id": 1, "missing": False, "name": "Selected", "numeric_value": 1, "selected": True},
    {"id": 0, "missing": False, "name": "Other", "numeric_value": 0},
    {"id": -1, "missing": True, "name": "No Data", "numeric_value": None},
]


def gen_cats(rng, n, allow_missing=True, numeric="some", min_valid=1):
    """n categories, distinct ids, missing flags at arbitrary payload positions."""
    ids = rng.sample(range(0, 3 * n + 4), n)      # 0 is a legitimate category id
    cats = []
    for i, cid in enumerate(ids):
        missing = allow_missing and rng.random() < 0.25
        nv = None
        if numeric == "all" or (numeric == "some" and rng.random() < 0.6):
            nv = rng.choice([-2, -1, 0, 1, 1, 2, 3, 5, 10])
        cats.append({"id": cid, "missing": missing, "name": "c%d" % cid, "numeric_value": nv})
    valid = [c for c in cats if not c["missing"]]
    while len(valid) < min(min_valid, n):
        c = rng.choice([c for c in cats if c["missing"]])
        c["missing"] = False
        valid.append(c)
    return cats


def gen_items(rng, n, prefix):
    ids = rng.sample(range(1, 2 * n + 3), n)
    return [{"id": eid, "alias": "%s_%c" % (prefix, chr(97 + i)), "subvar_id": "%04d" % (eid + 10),
             "name": "%s item %d" % (prefix, i)} for i, eid in enumerate(ids)]


def gen_var(rng, kind, alias, n=None, ncat=None, allow_missing=True, numeric="some", min_valid=1,
            missing_items=False, derived_items=False):
    n = n if n is not None else rng.randint(1, 4)
    if kind == "mr":
        v = Var("mr", alias, cats=copy.deepcopy(MR_CATS), items=gen_items(rng, n, alias))
        if missing_items and n >= 2 and rng.random() < 0.25:
            v.items[rng.randrange(n)]["missing"] = True
        if derived_items and n >= 2 and rng.random() < 0.35:
            k = rng.randrange(n)
            others = [it["alias"] for j, it in enumerate(v.items) if j != k]
            v.items[k]["derived"] = True
            v.items[k]["anchor"] = rng.choice(["top", "bottom", None,
                                              {"position": "before", "alias": rng.choice(others)},
                                              {"position": "after", "alias": rng.choice(others)},
                                              {"position": "after", "alias": "no_such_alias"}])
        return v
    if kind == "ca":
        ncat = ncat if ncat is not None else rng.randint(2, 4)
        return Var("ca", alias, cats=gen_cats(rng, ncat, allow_missing, numeric, min_valid),
                   items=gen_items(rng, n, alias), ca_transposed=False)
    if kind == "logical":
        return Var("logical", alias, cats=copy.deepcopy(MR_CATS))
    v = Var(kind, alias, cats=gen_cats(rng, n, allow_missing, numeric, min_valid))
    if kind == "cat_date" and len(v.cats) >= 2 and rng.random() < 0.3:
        # some categories (possibly the first ones) carry no date; at least one keeps it
        k = rng.randrange(len(v.cats))
        for i, c in enumerate(v.cats):
            if i != k and rng.random() < 0.5:
                c["nodate"] = True
        if rng.random() < 0.5 and k != 0:
            v.cats[0]["nodate"] = True
    if kind in ("cat", "cat_date") and rng.random() < 0.2:
        perm = list(range(len(v.cats)))
        rng.shuffle(perm)
        v.typedef_perm = perm
    return v


def gen_answer(rng, var, p_missing=None):
    if var.is_array:
        ncat = len(var.cats)
        return [rng.randrange(ncat) for _ in var.items]
    return [rng.randrange(len(var.cats))]


def gen_survey(rng, vars_, n_resp=None, weighted=True, skew=True, tiny=False):
    """list of (weight Fraction, [answer per var])."""
    n_resp = n_resp if n_resp is not None else rng.randint(0, 40)
    # skew: with some probability restrict each variable's support so that empty rows/cols occur
    supports = []
    for v in vars_:
        ncat = len(v.cats)
        if skew and rng.random() < 0.4 and ncat > 1:
            k = rng.randint(1, ncat)
            supports.append(rng.sample(range(ncat), k))
        else:
            supports.append(list(range(ncat)))
    survey = []
    # now and then the whole survey is weighted on a tiny (still dyadic, hence exact) scale: proportions, indexes and
    # tests of proportions are scale-free, so nothing may treat a base of 2^-40 as "empty"
    scale = TINY if (weighted and rng.random() < 0.07 and tiny) else Fraction(1)
    # ... and now and then every weight is 1 + 2^-20: weighted and unweighted counts then differ by 1e-6 relative (and
    # floor(weighted) = unweighted), so "this cube is not really weighted" shortcuts with a tolerance show up
    near1 = weighted and tiny and scale == 1 and rng.random() < 0.06
    for _ in range(n_resp):
        w = rng.choice(WEIGHTS) * scale if weighted else Fraction(1)
        if near1:
            w = NEAR1
        ans = []
        for v, sup in zip(vars_, supports):
            if v.is_array:
                # per-item missingness / support varies item by item
                a = []
                for k in range(len(v.items)):
                    a.append(rng.choice(sup) if rng.random() < 0.85 else rng.randrange(len(v.cats)))
                ans.append(a)
            else:
                ans.append([rng.choice(sup)])
        survey.append((w, ans))
    return survey


def raw_shape(vars_):
    sh = []
    for v in vars_:
        sh.extend(v.raw_axes_shape())
    return sh


def _member(v, a, sub):
    if v.is_array:
        if v.kind == "ca" and v.ca_transposed:
            c, k = sub
        else:
            k, c = sub
        return a[k] == c
    return a[0] == sub[0]


def tabulate(vars_, survey, weighted):
    """flat row-major list of Fractions: the raw cube array (Python twin of Lean `cubeOf`)."""
    shape = raw_shape(vars_)
    ranks = [len(v.raw_axes_shape()) for v in vars_]
    out = []
    for ix in itertools.product(*[range(s) for s in shape]):
        tot = Fraction(0)
        for w, ans in survey:
            pos = 0
            ok = True
            for v, a, r in zip(vars_, ans, ranks):
                if not _member(v, a, ix[pos:pos + r]):
                    ok = False
                    break
                pos += r
            if ok:
                tot += w if weighted else 1
        out.append(tot)
    return out


def drop_missing_items(vars_, survey):
    """the same design and survey with array items flagged missing removed (what the Lean model is given)"""
    vs = []
    for v in vars_:
        if v.is_array and len(v.valid_item_pos) != len(v.items):
            d = v.to_json()
            d["items"] = [it for it in v.items if not it.get("missing")]
            vs.append(Var.from_json(d))
        else:
            vs.append(v)
    keep = [v.valid_item_pos if v.is_array else None for v in vars_]
    sv = [(w, [([a[k] for k in kp] if kp is not None else a) for a, kp in zip(ans, keep)]) for w, ans in survey]
    return vs, sv


def tabulate_valid_items(vars_, survey, weighted):
    vs, sv = drop_missing_items(vars_, survey)
    return tabulate(vs, sv, weighted)


def num(x):
    """JSON number for a Fraction (dyadic rationals are exact in binary64)."""
    if isinstance(x, Fraction):
        return int(x) if x.denominator == 1 else float(x)
    return x


def cube_response(vars_, survey, weighted=True, extra_measures=None, filter_stats=None,
                  population_extras=None):
    """A real cube response dict for the library."""
    dims = []
    for v in vars_:
        dims.extend(v.dimension_dicts())
    ucounts = tabulate(vars_, survey, False)
    result = {
        "counts": [num(x) for x in ucounts],
        "dimensions": dims,
        "element": "crunch:cube",
        "measures": {},
        "missing": 0,
        "n": len(survey),
    }
    wcounts = tabulate(vars_, survey, True) if weighted else ucounts
    result["measures"]["count"] = {
        "data": [num(x) for x in wcounts],
        "metadata": {"derived": True, "references": {},
                     "type": {"class": "numeric", "integer": not weighted,
                              "missing_reasons": {"No Data": -1}, "missing_rules": {}}},
        "n_missing": 0,
    }
    for name, data in (extra_measures or {}).items():
        result["measures"][name] = {
            "data": data,
            "metadata": {"derived": True, "references": {},
                         "type": {"class": "numeric", "integer": False,
                                  "missing_reasons": {"No Data": -1}, "missing_rules": {}}},
            "n_missing": 0,
        }
    if filter_stats is not None:
        result["filter_stats"] = filter_stats
    for k, v in (population_extras or {}).items():
        result[k] = v
    return {"query": {}, "result": result}


def frac_str(x):
    x = Fraction(x)
    return str(x.numerator) if x.denominator == 1 else "%d/%d" % (x.numerator, x.denominator)


def survey_lean(vars_, survey):
    """survey in the Lean model's answer convention (arrays: category position per VALID item)."""
    keep = [v.valid_item_pos if v.is_array else None for v in vars_]
    out = []
    for w, ans in survey:
        a2 = [([a[k] for k in kp] if kp is not None else a) for a, kp in zip(ans, keep)]
        out.append({"w": frac_str(w), "ans": a2})
    return out


def design_lean(vars_):
    out = []
    for v in vars_:
        d = v.lean()
        d["transposed"] = bool(v.kind == "ca" and v.ca_transposed)
        out.append(d)
    return out


def survey_to_json(survey):
    return [[frac_str(w), ans] for w, ans in survey]


def survey_from_json(j):
    return [(Fraction(w), ans) for w, ans in j]
