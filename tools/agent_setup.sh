#!/bin/sh
# usage: agent_setup.sh <name>   -> creates /tmp/ag_<name>/verif as a private copy of /verif (with Lean build cache)
set -e
d=/tmp/ag_$1
mkdir -p $d
rsync -a --delete --exclude .git /verif/ $d/verif/
echo "scratch verif root: $d/verif"
