#!/venv/bin/python
"""run_in_tree.py <tree> <script.py> [args]: run a script with `cr.cube` imported from <tree>/src
(the venv's editable install would otherwise import /repo/src)."""
import os, sys, runpy
tree = os.path.abspath(sys.argv[1])
src = os.path.join(tree, "src")
sys.path.insert(0, src)
for m in [m for m in sys.modules if m.startswith("cr.")]:
    del sys.modules[m]
if "cr" in sys.modules:
    sys.modules["cr"].__path__ = [os.path.join(src, "cr")]
import cr.cube
assert os.path.realpath(cr.cube.__file__).startswith(os.path.realpath(src)), cr.cube.__file__
sys.argv = sys.argv[2:]
runpy.run_path(sys.argv[0], run_name="__main__")
