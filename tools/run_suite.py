#!/venv/bin/python
"""run_suite.py <tree> [pytest args...]: run the repository test suite of <tree> (a worktree of /repo, or /repo)
making sure `cr.cube` is imported from THAT tree (the venv's editable install otherwise imports /repo/src)."""
import os, sys
tree = os.path.abspath(sys.argv[1])
src = os.path.join(tree, "src")
sys.path.insert(0, src)
for m in [m for m in sys.modules if m.startswith("cr.")]:
    del sys.modules[m]
if "cr" in sys.modules:
    sys.modules["cr"].__path__ = [os.path.join(src, "cr")]
import cr.cube
assert os.path.realpath(cr.cube.__file__).startswith(os.path.realpath(src)), cr.cube.__file__
os.chdir(tree)
import pytest
sys.exit(pytest.main(["-q", "-p", "no:cacheprovider", "-q"] + sys.argv[2:]))
