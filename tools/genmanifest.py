#!/usr/bin/env python3
"""Regenerate MANIFEST.json from the table below (single source of truth)."""
import json, os
ROOT = os.path.dirname(os.path.dirname(os.path.abspath(__file__)))
PY = "/venv/bin/python"
BASELINE = "cd /repo && CRUNCH_IO_CRUNCH_CUBE_VERIF= /venv/bin/python -m pytest -ra -q -p no:cacheprovider --timeout=900 --continue-on-collection-errors"

# property -> (technique, level text, level note, design ref)
CLAIMED = json.load(open(os.path.join(ROOT, "tools", "claims.json")))
ALL = ["C%02d" % i for i in range(1, 21)]

checks = []
for pid in ALL:
    if pid not in CLAIMED:
        continue
    c = CLAIMED[pid]
    checks.append({
        "property_id": pid,
        "quick_cmd": "%s harness/check.py %s --tier quick" % (PY, pid),
        "thorough_cmd": "%s harness/check.py %s --tier thorough" % (PY, pid),
        "evidence_file": "/verif/evidence/%s.json" % pid,
        "replay_cmd_template": "%s harness/check.py %s --replay {path}" % (PY, pid),
        "engine": "lean4+correspondence",
        "level_claimed": {"category": "proof", "text": c["text"], "design_ref": c.get("design_ref", "DESIGN.md §3 " + pid)},
        "level_note": c["note"],
        "technique": c["technique"],
    })
na = []
NA = json.load(open(os.path.join(ROOT, "tools", "not_applicable.json")))
for pid in ALL:
    if pid not in CLAIMED:
        na.append({"property_id": pid, "reason": NA.get(pid, "check not built yet in this round; no claim is made for it")})
m = {
    "version": 1,
    "setup_cmd": "cd /verif/lean && lake build CrCube && cd /verif && /venv/bin/python -m compileall -q harness",
    "hooks": {
        "guard": "CRUNCH_IO_CRUNCH_CUBE_VERIF",
        "enable": "no hooks are needed: the harness imports /repo/src in-process and reaches the seams through the library's own (private) classes; the guard variable is reserved and unused",
        "baseline_off_cmd": BASELINE,
        "source_commits": [],
        "add_only": True,
    },
    "engines": [{
        "name": "lean4+correspondence",
        "path": "/verif/lean, /verif/harness",
        "serves_properties": [c["property_id"] for c in checks],
        "kind_free_text": "Lean 4 model + respondent-level spec + theorems (lake build, #print axioms audit), tied to /repo by a differential correspondence check between the real library (in-process) and the Lean driver (lake env lean --run Main.lean)",
    }],
    "checks": checks,
    "not_applicable": na,
    "notes": "See DESIGN.md. Every check: exit 0 = held; exit 1 + VIOLATION line; exit 2 = harness fault.",
}
json.dump(m, open(os.path.join(ROOT, "MANIFEST.json"), "w"), indent=1)
print("claimed:", [c["property_id"] for c in checks])
