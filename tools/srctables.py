#!/usr/bin/env python3
"""srctables.py [<tree>] [--out FILE]: TRANSLATOR for the table-shaped part of cr.cube.

Parses (ast, nothing is imported or executed) the decision tables of <tree>/src/cr/cube —

  enums.py                 DIMENSION_TYPE members / aliases / frozensets, MEASURE, MARGINAL, CUBE_MEASURE
                           (+ NUMERIC_CUBE_MEASURES)
  matrix/assembler.py      sort keyword -> second-order-measure property   (dict keyed by MEASURE members)
                           marginal keyword -> marginal property           (dict keyed by MARGINAL members)
  stripe/assembler.py      strand sort keyword -> measure property         (dict keyed by str)
  matrix/cubemeasure.py    (rows kind, cols kind) -> count extractor class (dict keyed by 2-tuples of str)

— and writes a self-contained Lean file that re-states each table as a literal (`src…`) and proves, for
EVERY string / enum member (no sampling), that the hand-written model's table is that very table.  The file is
regenerated from the working tree on every check and compiled with `lake env lean`; a table edited in the
source makes the theorem fail to check.

A table that cannot be located in the expected syntactic shape (a harmless rewrite into an if-chain, say) is
reported as `unextractable` and gives NO obligation: the behavioural correspondence is then the only tie.
"""
import ast
import json
import os
import sys


def _parse(path):
    with open(path) as fh:
        return ast.parse(fh.read(), filename=path)


def _class(tree, name):
    for n in tree.body:
        if isinstance(n, ast.ClassDef) and n.name == name:
            return n
    return None


def enum_members(tree, cls_name):
    """ordered [(NAME, value)] of `NAME = <str|int constant>` class attributes"""
    c = _class(tree, cls_name)
    if c is None:
        return None
    out = []
    for n in c.body:
        if isinstance(n, ast.Assign) and len(n.targets) == 1 and isinstance(n.targets[0], ast.Name) \
                and isinstance(n.value, ast.Constant) and isinstance(n.value.value, (str, int)) \
                and not isinstance(n.value.value, bool):
            out.append((n.targets[0].id, n.value.value))
    return out


def dimension_types(tree):
    """(members {NAME: 'STR'} incl. aliases, canonical [STR...] in declaration order, sets {NAME: [STR...]})"""
    c = _class(tree, "DIMENSION_TYPE")
    if c is None:
        return None
    members, canon, sets = {}, [], {}
    for n in c.body:
        if not (isinstance(n, ast.Assign) and len(n.targets) == 1 and isinstance(n.targets[0], ast.Name)):
            continue
        nm, v = n.targets[0].id, n.value
        if isinstance(v, ast.Call) and isinstance(v.func, ast.Name) and v.func.id == "_DimensionType" \
                and len(v.args) == 1 and isinstance(v.args[0], ast.Constant):
            members[nm] = v.args[0].value
            canon.append(v.args[0].value)
        elif isinstance(v, ast.Name) and v.id in members:
            members[nm] = members[v.id]
        elif isinstance(v, ast.Call) and isinstance(v.func, ast.Name) and v.func.id == "frozenset" \
                and len(v.args) == 1 and isinstance(v.args[0], (ast.Tuple, ast.List, ast.Set)):
            elts = v.args[0].elts
            if all(isinstance(e, ast.Name) and e.id in members for e in elts):
                sets[nm] = [members[e.id] for e in elts]
    return members, canon, sets


def numeric_cube_measures(tree, cube_measure):
    c = _class(tree, "CUBE_MEASURE")
    if c is None:
        return None
    names = dict(cube_measure)
    for n in c.body:
        if isinstance(n, ast.FunctionDef) and n.name == "NUMERIC_CUBE_MEASURES":
            for r in ast.walk(n):
                if isinstance(r, ast.Return) and isinstance(r.value, (ast.Set, ast.Tuple, ast.List)):
                    elts = r.value.elts
                    if all(isinstance(e, ast.Attribute) and isinstance(e.value, ast.Name) and e.value.id == "cls"
                           and e.attr in names for e in elts):
                        return [names[e.attr] for e in elts]
    return None


def import_aliases(tree):
    """local name -> enum class name, for `from cr.cube.enums import X as Y`"""
    out = {}
    for n in tree.body:
        if isinstance(n, ast.ImportFrom) and n.module == "cr.cube.enums":
            for a in n.names:
                out[a.asname or a.name] = a.name
    return out


def enum_keyed_dicts(tree, aliases, enum_cls, enum_map):
    """all dict literals whose keys are ALL `<alias>.<MEMBER>` of enum_cls and whose values are all str"""
    found = []
    for n in ast.walk(tree):
        if isinstance(n, ast.Dict) and n.keys and all(
                isinstance(k, ast.Attribute) and isinstance(k.value, ast.Name)
                and aliases.get(k.value.id) == enum_cls and k.attr in enum_map for k in n.keys) and all(
                isinstance(v, ast.Constant) and isinstance(v.value, str) for v in n.values):
            d = {}
            for k, v in zip(n.keys, n.values):
                d[enum_map[k.attr]] = v.value          # python: a repeated key keeps the LAST value
            found.append(d)
    return found


def str_keyed_dicts(tree, min_len=5):
    found = []
    for n in ast.walk(tree):
        if isinstance(n, ast.Dict) and len(n.keys) >= min_len and all(
                isinstance(k, ast.Constant) and isinstance(k.value, str) for k in n.keys) and all(
                isinstance(v, ast.Constant) and isinstance(v.value, str) for v in n.values):
            found.append({k.value: v.value for k, v in zip(n.keys, n.values)})
    return found


def pair_dispatch(tree, fn_class="_BaseCubeCounts"):
    """`{("MR","MR"): Cls, ...}.get(x, Default)` inside class `fn_class` -> ({(a,b): 'Cls'}, 'Default')"""
    c = _class(tree, fn_class)
    if c is None:
        return None
    for n in ast.walk(c):
        if isinstance(n, ast.Call) and isinstance(n.func, ast.Attribute) and n.func.attr == "get" \
                and isinstance(n.func.value, ast.Dict) and len(n.args) == 2 and isinstance(n.args[1], ast.Name):
            d = n.func.value
            if d.keys and all(isinstance(k, ast.Tuple) and len(k.elts) == 2 and all(
                    isinstance(e, ast.Constant) and isinstance(e.value, str) for e in k.elts) for k in d.keys) \
                    and all(isinstance(v, ast.Name) for v in d.values):
                return ({(k.elts[0].value, k.elts[1].value): v.id for k, v in zip(d.keys, d.values)}, n.args[1].id)
    return None


def extract(tree_root):
    src = os.path.join(tree_root, "src", "cr", "cube")
    out = {"unextractable": []}

    def miss(what):
        out["unextractable"].append(what)

    en = _parse(os.path.join(src, "enums.py"))
    measure = enum_members(en, "MEASURE")
    marginal = enum_members(en, "MARGINAL")
    cube_measure = enum_members(en, "CUBE_MEASURE")
    dts = dimension_types(en)
    if measure:
        out["measure_values"] = [v for _, v in measure]
    else:
        miss("enums.MEASURE")
    if marginal:
        out["marginal_values"] = [v for _, v in marginal]
    else:
        miss("enums.MARGINAL")
    if cube_measure:
        out["cube_measure_values"] = [v for _, v in cube_measure]
        num = numeric_cube_measures(en, cube_measure)
        if num is not None:
            out["numeric_cube_measures"] = num
        else:
            miss("enums.CUBE_MEASURE.NUMERIC_CUBE_MEASURES")
    else:
        miss("enums.CUBE_MEASURE")
    if dts:
        members, canon, sets = dts
        out["dimension_type_names"] = canon
        for nm in ("ARRAY_TYPES", "SHIMMED_TYPES", "ALLOWED_PAIRWISE_TYPES"):
            if nm in sets:
                out[nm.lower()] = sets[nm]
            else:
                miss("enums.DIMENSION_TYPE." + nm)
    else:
        miss("enums.DIMENSION_TYPE")

    ma = _parse(os.path.join(src, "matrix", "assembler.py"))
    al = import_aliases(ma)
    if measure:
        ds = enum_keyed_dicts(ma, al, "MEASURE", dict(measure))
        if len(ds) == 1:
            out["matrix_sort_table"] = ds[0]
        else:
            miss("matrix/assembler.py: MEASURE-keyed dict (%d found)" % len(ds))
    if marginal:
        ds = enum_keyed_dicts(ma, al, "MARGINAL", dict(marginal))
        if len(ds) == 1:
            out["marginal_sort_table"] = ds[0]
        else:
            miss("matrix/assembler.py: MARGINAL-keyed dict (%d found)" % len(ds))
    sa = _parse(os.path.join(src, "stripe", "assembler.py"))
    ds = str_keyed_dicts(sa)
    if len(ds) == 1:
        out["stripe_sort_table"] = ds[0]
    else:
        miss("stripe/assembler.py: str-keyed dict (%d found)" % len(ds))
    # numeric constants: cubepart.Z_975 and the default alpha of the legacy pairwise constructors
    cp = _parse(os.path.join(src, "cubepart.py"))
    z = [n.value.value for n in cp.body if isinstance(n, ast.Assign) and len(n.targets) == 1
         and isinstance(n.targets[0], ast.Name) and n.targets[0].id == "Z_975"
         and isinstance(n.value, ast.Constant) and isinstance(n.value.value, float)]
    if len(z) == 1:
        out["z_975"] = repr(z[0])
    else:
        miss("cubepart.py: Z_975 float constant")
    pw = _parse(os.path.join(src, "measures", "pairwise_significance.py"))
    alphas = set()
    for c in pw.body:
        if isinstance(c, ast.ClassDef):
            for f in c.body:
                if isinstance(f, ast.FunctionDef) and f.name == "__init__":
                    names = [a.arg for a in f.args.args]
                    defs = dict(zip(names[len(names) - len(f.args.defaults):], f.args.defaults))
                    d = defs.get("alpha")
                    if isinstance(d, ast.Constant) and isinstance(d.value, float):
                        alphas.add(repr(d.value))
    if len(alphas) == 1:
        out["legacy_default_alpha"] = alphas.pop()
    else:
        miss("measures/pairwise_significance.py: default alpha (%d distinct)" % len(alphas))
    cm = _parse(os.path.join(src, "matrix", "cubemeasure.py"))
    pd = pair_dispatch(cm)
    if pd:
        out["counts_dispatch"] = {"table": [[a, b, c] for (a, b), c in pd[0].items()], "default": pd[1]}
    else:
        miss("matrix/cubemeasure.py: _BaseCubeCounts pair dispatch")
    return out


# ---------------------------------------------------------------------------------------------------------
# Lean rendering


def _s(x):
    return json.dumps(x, ensure_ascii=True)


def _lst(xs):
    return "[" + ", ".join(_s(x) for x in xs) + "]"


def _tbl(d):
    return "[" + ", ".join("(%s, %s)" % (_s(k), _s(v)) for k, v in sorted(d.items())) + "]"


PRELUDE = """-- GENERATED by tools/srctables.py from the working tree of crunch-cube; do not edit.
import CrCube.Model.Collator
import CrCube.Model.Glue
import CrCube.Spec.Order
import CrCube.Model.Variance
import CrCube.Model.Population
import CrCube.Model.PairwiseLegacy

namespace CrCube.SourceTables

/-- a key that is not listed is not found -/
theorem lookup_none {β : Type} (s : String) :
    ∀ (l : List (String × β)), s ∉ l.map Prod.fst → l.lookup s = none
  | [], _ => rfl
  | (k, v) :: t, h => by
      have hne : s ≠ k := fun e => h (by simp [e])
      have hk : (s == k) = false := by simpa using hne
      have ht : s ∉ t.map Prod.fst := fun m => h (by simp at m ⊢; exact Or.inr m)
      simp only [List.lookup, hk]
      exact lookup_none s t ht

"""


def _table_theorem(name, src_def, table, model_fn):
    n = len(table)
    alts = " | ".join(["rfl"] * n)
    return (
        "def {src} : List (String × String) :=\n  {tbl}\n\n"
        "/-- the model's table IS the table in the source, on every string -/\n"
        "theorem {name} (s : String) : {fn} s = {src}.lookup s := by\n"
        "  by_cases h : s ∈ {src}.map Prod.fst\n"
        "  · simp only [{src}, List.map, List.mem_cons, List.not_mem_nil, or_false] at h\n"
        "    rcases h with {alts} <;> decide\n"
        "  · rw [lookup_none s _ h]\n"
        "    simp only [{src}, List.map, List.mem_cons, List.not_mem_nil, or_false, not_or] at h\n"
        "    unfold {fn}\n"
        "    split <;> simp_all\n\n"
    ).format(src=src_def, tbl=_tbl(table), name=name, fn=model_fn, alts=alts)


def render(t):
    """returns (lean_source, [theorem names])"""
    out = [PRELUDE]
    thms = []
    if "matrix_sort_table" in t:
        out.append(_table_theorem("matrix_sort_table", "srcMatrixSort", t["matrix_sort_table"],
                                  "CrCube.Collator.matrixMeasureProp"))
        thms.append("matrix_sort_table")
    if "marginal_sort_table" in t:
        out.append(_table_theorem("marginal_sort_table", "srcMarginalSort", t["marginal_sort_table"],
                                  "CrCube.Collator.marginalProp"))
        thms.append("marginal_sort_table")
    if "stripe_sort_table" in t:
        out.append(_table_theorem("stripe_sort_table", "srcStripeSort", t["stripe_sort_table"],
                                  "CrCube.Collator.stripeMeasureProp"))
        thms.append("stripe_sort_table")
    if "measure_values" in t:
        out.append("def srcMeasureValues : List String :=\n  %s\n\n" % _lst(t["measure_values"]))
        out.append("/-- every sort keyword the specification lists is a member of the MEASURE enum -/\n"
                   "theorem sort_keywords_are_measures : ∀ kw ∈ CrCube.OrderSpec.matrixKeywords, kw ∈ srcMeasureValues := by\n"
                   "  decide\n\n")
        thms.append("sort_keywords_are_measures")
        if "matrix_sort_table" in t:
            out.append("/-- the sortable keywords are exactly the enum members the source table gives a property -/\n"
                       "theorem sortable_iff_listed : ∀ kw ∈ srcMeasureValues,\n"
                       "    (kw ∈ CrCube.OrderSpec.matrixKeywords ∨ kw = \"valid_count_unweighted\" ∨ kw = \"valid_count_weighted\")\n"
                       "      ↔ (srcMatrixSort.lookup kw).isSome = true := by\n  decide\n\n")
            thms.append("sortable_iff_listed")
    if "marginal_values" in t:
        out.append("def srcMarginalValues : List String :=\n  %s\n\n" % _lst(t["marginal_values"]))
        out.append("theorem marginal_keywords_are_marginals :\n"
                   "    (∀ kw ∈ CrCube.OrderSpec.marginalKeywords, kw ∈ srcMarginalValues) ∧\n"
                   "    (∀ kw ∈ srcMarginalValues, kw ∈ CrCube.OrderSpec.marginalKeywords) := by decide\n\n")
        thms.append("marginal_keywords_are_marginals")
    if "cube_measure_values" in t:
        out.append("def srcCubeMeasures : List String :=\n  %s\n\n" % _lst(t["cube_measure_values"]))
        out.append("/-- the response measures the parser accepts, in declaration order (the order matters since F40) -/\n"
                   "theorem cube_measures : CrCube.Glue.knownMeasures = srcCubeMeasures := by decide\n\n")
        thms.append("cube_measures")
        if "numeric_cube_measures" in t:
            out.append("def srcNumericSet : List String :=\n  %s\n\n" % _lst(t["numeric_cube_measures"]))
            out.append("theorem numeric_measures :\n"
                       "    CrCube.Glue.numericMeasures = srcCubeMeasures.filter (fun m => srcNumericSet.contains m) := by decide\n\n")
            thms.append("numeric_measures")
    if "dimension_type_names" in t:
        out.append("def srcDimTypes : List String :=\n  %s\n\n" % _lst(t["dimension_type_names"]))
        out.append("theorem dimension_types_named (d : CrCube.Glue.DT) : d.name ∈ srcDimTypes := by\n"
                   "  cases d <;> decide\n\n"
                   "theorem dimension_types_all : ∀ n ∈ srcDimTypes, ∃ d : CrCube.Glue.DT, d.name = n := by\n"
                   "  intro n hn\n"
                   "  simp only [srcDimTypes, List.mem_cons, List.not_mem_nil, or_false] at hn\n"
                   "  rcases hn with %s\n"
                   "  all_goals first\n"
                   "    | exact ⟨.binnedNumeric, rfl⟩ | exact ⟨.cat, rfl⟩ | exact ⟨.catDate, rfl⟩ | exact ⟨.caCat, rfl⟩\n"
                   "    | exact ⟨.caSubvar, rfl⟩ | exact ⟨.datetime, rfl⟩ | exact ⟨.logical, rfl⟩ | exact ⟨.mrCat, rfl⟩\n"
                   "    | exact ⟨.mrSubvar, rfl⟩ | exact ⟨.numArray, rfl⟩ | exact ⟨.text, rfl⟩\n\n"
                   % " | ".join(["rfl"] * len(t["dimension_type_names"])))
        thms += ["dimension_types_named", "dimension_types_all"]
    if "array_types" in t:
        out.append("def srcArrayTypes : List String :=\n  %s\n\n" % _lst(t["array_types"]))
        out.append("/-- `DT.ARRAY_TYPES` -/\n"
                   "theorem array_types (d : CrCube.Glue.DT) : d.isArray = srcArrayTypes.contains d.name := by\n"
                   "  cases d <;> decide\n\n")
        thms.append("array_types")
        if "shimmed_types" in t:
            out.append("def srcShimmedTypes : List String :=\n  %s\n\n" % _lst(t["shimmed_types"]))
            out.append("/-- references are translated on array dimensions and on datetime dimensions, nowhere else -/\n"
                       "theorem shimmed_types : ∀ n ∈ srcDimTypes,\n"
                       "    srcShimmedTypes.contains n = (srcArrayTypes.contains n || n == \"DATETIME\") := by decide\n\n")
            thms.append("shimmed_types")
    if "counts_dispatch" in t:
        cd = t["counts_dispatch"]
        rows = ", ".join("((%s, %s), %s)" % (_s(a), _s(b), _s(c)) for a, b, c in sorted(cd["table"]))
        out.append("def srcCountsDispatch : List ((String × String) × String) :=\n  [%s]\n\n" % rows)
        out.append("def cap : String → String\n  | \"MR\" => \"Mr\" | \"ARR\" => \"Arr\" | _ => \"Cat\"\n\n")
        out.append("/-- the extractor chosen for a (rows kind, columns kind) pair is the class NAMED for that pair\n"
                   "    (each class is tied to its model function by the `xtr` seam of C02) -/\n"
                   "theorem counts_dispatch : ∀ a ∈ [\"MR\", \"ARR\", \"CAT\"], ∀ b ∈ [\"MR\", \"ARR\", \"CAT\"],\n"
                   "    (srcCountsDispatch.lookup (a, b)).getD %s = \"_\" ++ cap a ++ \"X\" ++ cap b ++ \"CubeCounts\" := by decide\n\n"
                   % _s(cd["default"]))
        thms.append("counts_dispatch")
    def dec(txt):
        """decimal literal text -> exact 'num / den' (the value python's float literal denotes to the printed precision)"""
        from fractions import Fraction
        fr = Fraction(txt)
        return "(%d : Rat) / %d" % (fr.numerator, fr.denominator)
    if "z_975" in t:
        out.append("/-- `cubepart.Z_975` (decimal literal %s) is the constant of the margin-of-error models -/\n"
                   "theorem z975_constant : CrCube.Z975 = %s ∧ CrCube.Population.Z975 = %s := by\n"
                   "  constructor <;> decide +kernel\n\n" % (t["z_975"], dec(t["z_975"]), dec(t["z_975"])))
        thms.append("z975_constant")
    if "legacy_default_alpha" in t:
        out.append("/-- default alpha of the legacy pairwise constructors -/\n"
                   "theorem legacy_default_alpha : CrCube.PairwiseLegacy.defaultAlpha = %s := by decide +kernel\n\n"
                   % dec(t["legacy_default_alpha"]))
        thms.append("legacy_default_alpha")
    out.append("end CrCube.SourceTables\n\n")
    for th in thms:
        out.append("#print axioms CrCube.SourceTables.%s\n" % th)
    return "".join(out), thms


def main():
    args = [a for a in sys.argv[1:] if not a.startswith("--")]
    tree = args[0] if args else "/repo"
    t = extract(tree)
    src, thms = render(t)
    if "--out" in sys.argv:
        with open(sys.argv[sys.argv.index("--out") + 1], "w") as fh:
            fh.write(src)
        print(json.dumps({"theorems": thms, "unextractable": t["unextractable"]}))
    elif "--json" in sys.argv:
        print(json.dumps(t, indent=1))
    else:
        sys.stdout.write(src)


if __name__ == "__main__":
    main()
