#!/venv/bin/python
"""mutate.py <name>|list|all : apply one hand mutation to /tmp/wt_shim_fix (reset first), run C19 and C18 quick."""
import os, subprocess, sys
WT = "/tmp/wt_shim_fix"
V = "/tmp/ag_shim/verif"
D = "src/cr/cube/dimension.py"
A = "src/cr/cube/matrix/assembler.py"
U = "src/cr/cube/util.py"
C = "src/cr/cube/cube.py"
P = "src/cr/cube/cubepart.py"

M = {
 # ---------------- C19
 "rule_order_subvar_before_alias": (D, '''        if _id in self._subvar_aliases:
            return _id
        if _id in self._raw_element_ids:
            return self._subvar_aliases[self._raw_element_ids.index(_id)]
''', '''        if _id in self._subvar_ids:
            return self._subvar_aliases[self._subvar_ids.index(_id)]
        if _id in self._subvar_aliases:
            return _id
        if _id in self._raw_element_ids:
            return self._subvar_aliases[self._raw_element_ids.index(_id)]
'''),
 "drop_str_element_id_rule": (D, '''            _id = int(_id)
            # --- If successfully converted to int, try raw element ids again
            if _id in self._raw_element_ids:
                return self._subvar_aliases[self._raw_element_ids.index(_id)]
''', '''            _id = int(_id)
'''),
 "position_off_by_one": (D, '''        if _id >= 0 and _id < len(self._subvar_aliases):
            return self._subvar_aliases[_id]
''', '''        if _id > 0 and _id <= len(self._subvar_aliases):
            return self._subvar_aliases[_id - 1]
'''),
 "position_upper_bound_inclusive": (D, '''        if _id >= 0 and _id < len(self._subvar_aliases):
''', '''        if _id >= -1 and _id < len(self._subvar_aliases):
'''),
 "fixed_bottom_not_translated": (D, '''        if fixed.get("bottom"):
            fixed["bottom"] = self._replaced_order_element_ids(fixed["bottom"])
''', '''        if fixed.get("bottom"):
            pass
'''),
 "fixed_top_uses_bottom": (D, '''            fixed["top"] = self._replaced_order_element_ids(fixed["top"])
''', '''            fixed["top"] = self._replaced_order_element_ids(fixed.get("bottom") or fixed["top"])
'''),
 "opposing_not_translated_for_columns": (A, '''        sort_row_id = self._rows_dimension.translate_element_id(sort_row_id)
''', '''        pass
'''),
 "opposing_not_translated_for_rows": (A, "@1:        sort_column_id = self._columns_dimension.translate_element_id(sort_column_id)\n", "        pass\n"),
 "derived_column_not_translated": (A, "@2:        sort_column_id = self._columns_dimension.translate_element_id(sort_column_id)\n", "        pass\n"),
 "mr_insertion_mask_ignored": (D, '''                for is_ins, el in zip(insertions_mask, self._raw_element_ids)
                if not is_ins
''', '''                for is_ins, el in zip(insertions_mask, self._raw_element_ids)
'''),
 "subvar_key_mode_uses_cascade": (D, '''        if key == "subvar_id":''', '''        if key == "subvar_id_":'''),
 "elements_keys_none_kept": (D, '''            if nkey is not None
''', '''            if True
'''),
 "str_id_lookup_dropped": (D, '''                all_xforms.get(element_id, all_xforms.get(str(element_id), {}))''',
                           '''                all_xforms.get(element_id, {})'''),
 "datetime_str_id_not_converted": (D, '''            int_id = int(_id) if isinstance(_id, str) and _id.isnumeric() else _id
''', '''            int_id = _id
'''),
 "subvar_alias_only_first": (D, '''            for idx, alias in enumerate(self._subvar_aliases):
                shim["type"]["elements"][idx]["subvar_alias"] = alias
''', '''            for idx, alias in enumerate(self._subvar_aliases[:1]):
                shim["type"]["elements"][idx]["subvar_alias"] = alias
'''),
 "alias_rule_dropped": (D, '''        if _id in self._subvar_aliases:
            return _id
        if _id in self._raw_element_ids:
''', '''        if _id in self._raw_element_ids:
'''),
 "element_ids_only_when_nonempty": (D, '''        if shim.get("order", {}).get("element_ids") is not None:
            shim["order"]["element_ids"] = self._replaced_order_element_ids(
                shim["order"]["element_ids"]
            )
''', '''        if shim.get("order", {}).get("element_ids") is not None and len(shim["order"]["element_ids"]) > 2:
            shim["order"]["element_ids"] = self._replaced_order_element_ids(
                shim["order"]["element_ids"]
            )
'''),
 "has_mr_insertion_ignores_type": (D, '''        if self.dimension_type == DT.MR_SUBVAR:
            references = self._dimension_dict.get("references") or {}''', '''        if self.dimension_type in DT.ARRAY_TYPES:
            references = self._dimension_dict.get("references") or {}'''),
 "alias_key_mode_not_returned_early": (D, '''        if key == "alias":''', '''        if key == "alias_":'''),
 "fixed_top_only_when_several": (D, '''        if fixed.get("top"):''', '''        if len(fixed.get("top") or []) > 1:'''),
 "order_ids_tuple_first_only": (D, '''        return tuple(self._order_dict.get("element_ids") or [])''', '''        return tuple((self._order_dict.get("element_ids") or [])[:3])'''),
 # ---------------- C18
 "lazyproperty_bools_cached_on_class": (U, '''            value = self._fget(obj)
            obj.__dict__[self.__name__] = value
''', '''            cached = obj.__class__.__dict__.get("_lpb_" + self.__name__)
            if cached is not None:
                return cached
            value = self._fget(obj)
            obj.__dict__[self.__name__] = value
            if isinstance(value, bool):
                setattr(obj.__class__, "_lpb_" + self.__name__, value)
'''),
 "lazyproperty_tuples_cached_on_class": (U, '''            value = self._fget(obj)
            obj.__dict__[self.__name__] = value
''', '''            cached = obj.__class__.__dict__.get("_lpt_" + self.__name__)
            if cached is not None:
                return cached
            value = self._fget(obj)
            obj.__dict__[self.__name__] = value
            if isinstance(value, tuple) and value and isinstance(value[0], str):
                setattr(obj.__class__, "_lpt_" + self.__name__, value)
'''),
 "lazyproperty_cached_on_descriptor": (U, '''        value = obj.__dict__.get(self.__name__)
        if value is None:
            # ---on first access, __dict__ item will absent. Evaluate fget()
            # ---and store that value in the (otherwise unused) host-object
            # ---__dict__ value of same name ('fget' nominally)
            value = self._fget(obj)
            obj.__dict__[self.__name__] = value
''', '''        value = self.__dict__.get("_v")
        if value is None:
            value = self._fget(obj)
            self.__dict__["_v"] = value
'''),
 "lazyproperty_keyed_by_class_name": (U, '''        value = obj.__dict__.get(self.__name__)
        if value is None:
            # ---on first access, __dict__ item will absent. Evaluate fget()
            # ---and store that value in the (otherwise unused) host-object
            # ---__dict__ value of same name ('fget' nominally)
            value = self._fget(obj)
            obj.__dict__[self.__name__] = value
''', '''        cache = obj.__class__.__dict__.get("_lp_cache")
        if cache is None:
            cache = {}
            setattr(obj.__class__, "_lp_cache", cache)
        value = cache.get(self.__name__)
        if value is None:
            value = self._fget(obj)
            cache[self.__name__] = value
'''),
 "shim_reverses_lists": (D, '''        return [self.translate_element_id(_id) for _id in element_ids]
''', '''        return [self.translate_element_id(_id) for _id in element_ids][::-1]
'''),
 "shim_writes_subvar_id": (D, '''        return [self.translate_element_id(_id) for _id in element_ids]
''', '''        out = [self.translate_element_id(_id) for _id in element_ids]
        return [self._subvar_ids[self._subvar_aliases.index(a)] if a in self._subvar_aliases and isinstance(_id, int) else a
                for a, _id in zip(out, element_ids)]
'''),
 "subvar_alias_appended": (D, '''                shim["type"]["elements"][idx]["subvar_alias"] = alias
''', '''                el = shim["type"]["elements"][idx]
                el["subvar_alias"] = alias if "subvar_alias" not in el else el["subvar_alias"] + "_"
'''),
 "envelope_not_unwrapped": (C, '''            return cube_response.get("value", cube_response)
''', '''            return cube_response
'''),
 "raw_array_writeable": (C, '''        raw_cube_array.flags.writeable = False
''', '''        pass
'''),
 "response_memoized_by_length": (C, '''            cube_response = (
                response if isinstance(response, dict) else json.loads(response)
            )
''', '''            if isinstance(response, dict):
                cube_response = response
            else:
                cube_response = _LOADS.setdefault(len(response), json.loads(response))
'''),
 "numeric_measure_guard_loose": (C, '''        return Cube(self._cube_responses[0]).ndim == 0
''', '''        return Cube(self._cube_responses[0]).ndim <= 1
'''),
 "default_transforms_shared_and_written": (P, '''        return {} if self._transforms_arg is None else self._transforms_arg
''', '''        t = _SHARED if not self._transforms_arg else self._transforms_arg
        t.setdefault("rows_dimension", {}).setdefault("seen", 0)
        t["rows_dimension"]["prune"] = t["rows_dimension"]["seen"] > 2
        t["rows_dimension"]["seen"] += 1
        return t
'''),
 "elements_dict_popped": (D, '''        all_xforms = dimension_transforms_dict.get("elements", {})
''', '''        all_xforms = dimension_transforms_dict.pop("elements", {})
'''),
 "order_dict_type_consumed": (D, '''        method_keyword = self._order_dict.get("type")
''', '''        method_keyword = self._order_dict.pop("type", None)
'''),
}


def sh(cmd, **kw):
    return subprocess.run(cmd, shell=True, capture_output=True, text=True, **kw)


def reset():
    sh("git -C %s checkout -q -- ." % WT)


def apply(name):
    f, old, new = M[name]
    p = os.path.join(WT, f)
    s = open(p).read()
    if old.startswith("@"):
        nth = int(old[1]); old = old[3:]
        parts = s.split(old)
        if len(parts) <= nth:
            return "PATTERN x%d" % (len(parts) - 1)
        s = old.join(parts[:nth]) + new + old.join(parts[nth:])
    else:
        if s.count(old) != 1:
            return "PATTERN x%d" % s.count(old)
        s = s.replace(old, new)
    if name == "response_memoized_by_length":
        s = s.replace("class CubeSet:", "_LOADS = {}\n\n\nclass CubeSet:", 1)
    if name == "default_transforms_shared_and_written":
        s = s.replace("class CubePartition:", "_SHARED = {}\n\n\nclass CubePartition:", 1)
    open(p, "w").write(s)
    return None


def run(name, props=("C19", "C18"), suite=False):
    reset()
    err = apply(name)
    if err:
        print("%-40s %s" % (name, err))
        return
    out = []
    if suite:
        r = sh("/venv/bin/python /verif/tools/run_suite.py %s 2>&1 | grep -c '^FAILED\\|^ERROR'" % WT)
        out.append("suite_failures=%s" % r.stdout.strip())
    for prop in props:
        r = sh("VERIF_REPO=%s /venv/bin/python harness/check.py %s --tier quick 2>&1 | tail -7" % (WT, prop), cwd=V)
        lines = r.stdout.strip().split("\n")
        loci = [l.split("replays/")[1].split(".json")[0] for l in lines if l.startswith("VIOLATION")]
        out.append("%s:%s %s" % (prop, lines[-1].split()[0], ",".join(loci)))
    print("%-40s %s" % (name, " | ".join(out)), flush=True)
    reset()


if __name__ == "__main__":
    arg = sys.argv[1]
    suite = "--suite" in sys.argv
    if arg == "list":
        print("\n".join(M))
    elif arg == "all":
        for n in M:
            run(n, suite=suite)
    else:
        for n in arg.split(","):
            run(n, suite=suite)
