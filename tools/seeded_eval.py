#!/venv/bin/python
"""seeded_eval.py <src_dir> <seed_id> [--props C01,C02] [--tier quick] [--seeds 0,1]

Confirm a seeded change (src_dir has patch.diff, demo.py, meta.json) in a scratch worktree of
/repo HEAD: patch applies, the repository suite shows only the pre-existing failure, the demo
exits 0 on /repo and 1 on the changed tree; then run the registered checks against the changed
tree (VERIF_REPO) and record which catch it.  On success the change is stored as
/verif/seeded/<seed_id>/ (patch.diff, demo.py, meta.json with a `verified` block).
Never touches /repo's working tree.
"""
import argparse
import json
import os
import shutil
import subprocess
import sys

VERIF = os.path.dirname(os.path.dirname(os.path.abspath(__file__)))
PY = "/venv/bin/python"


def sh(cmd, **kw):
    return subprocess.run(cmd, capture_output=True, text=True, **kw)


def main():
    ap = argparse.ArgumentParser()
    ap.add_argument("src")
    ap.add_argument("seed_id")
    ap.add_argument("--props", default=None)
    ap.add_argument("--tier", default="quick")
    ap.add_argument("--seeds", default="0")
    ap.add_argument("--skip-suite", action="store_true")
    args = ap.parse_args()
    meta = json.load(open(os.path.join(args.src, "meta.json")))
    props = (args.props or meta["property"]).split(",")
    wt = "/tmp/seedwt_%s" % args.seed_id
    sh(["git", "-C", "/repo", "worktree", "remove", "--force", wt])
    r = sh(["git", "-C", "/repo", "worktree", "add", "-q", wt, "HEAD"])
    if r.returncode != 0:
        print("worktree failed", r.stderr)
        return 2
    out = {"repo_head": sh(["git", "-C", "/repo", "rev-parse", "--short", "HEAD"]).stdout.strip()}
    try:
        r = sh(["git", "-C", wt, "apply", os.path.abspath(os.path.join(args.src, "patch.diff"))])
        out["applies"] = r.returncode == 0
        if r.returncode != 0:
            print("PATCH DOES NOT APPLY", r.stderr[:500])
            return 3
        if not args.skip_suite:
            r = sh([PY, os.path.join(VERIF, "tools", "run_suite.py"), wt])
            tail = [l for l in r.stdout.split("\n") if l.startswith(("FAILED", "ERROR"))]
            out["suite_failures"] = tail
            out["suite_ok"] = tail == ["FAILED tests/integration/test_cubepart.py::Test_LegacySlice::test_profiles_percentages_add_up_to_100"]
        demo = os.path.abspath(os.path.join(args.src, "demo.py"))
        r0 = sh([PY, os.path.join(VERIF, "tools", "run_in_tree.py"), "/repo", demo], cwd="/tmp")
        r1 = sh([PY, os.path.join(VERIF, "tools", "run_in_tree.py"), wt, demo], cwd="/tmp")
        out["demo_unchanged_exit"] = r0.returncode
        out["demo_changed_exit"] = r1.returncode
        out["demo_changed_output"] = (r1.stdout + r1.stderr)[-600:]
        det = {}
        for p in props:
            det[p] = []
            for sd in args.seeds.split(","):
                env = dict(os.environ, VERIF_REPO=wt, VERIF_SEED=sd)
                r = sh([PY, os.path.join(VERIF, "harness", "check.py"), p, "--tier", args.tier], cwd=VERIF, env=env)
                lines = [l for l in r.stdout.split("\n") if l.startswith(("VIOLATION", "HARNESS"))]
                det[p].append({"seed": int(sd), "exit": r.returncode, "lines": lines[:6]})
        out["checks"] = det
        out["caught_by"] = sorted(p for p, rs in det.items() if any(x["exit"] == 1 for x in rs))
    finally:
        sh(["git", "-C", "/repo", "worktree", "remove", "--force", wt])
    ok = out.get("applies") and out.get("suite_ok", True) and out["demo_unchanged_exit"] == 0 and out["demo_changed_exit"] == 1
    out["confirmed"] = bool(ok)
    print(json.dumps(out, indent=1))
    if ok:
        dst = os.path.join(VERIF, "seeded", args.seed_id)
        os.makedirs(dst, exist_ok=True)
        prev = {}
        if os.path.exists(os.path.join(dst, "meta.json")):
            prev = json.load(open(os.path.join(dst, "meta.json"))).get("verified", {})
        if args.skip_suite and "suite_ok" in prev:
            # the suite was run in an earlier full evaluation of this very patch: carry the result over
            out["suite_ok"] = prev["suite_ok"]
            out["suite_failures"] = prev.get("suite_failures")
            out["suite_run_at_repo_head"] = prev.get("suite_run_at_repo_head", prev.get("repo_head"))
        for f in ("patch.diff", "demo.py"):
            if os.path.abspath(os.path.join(args.src, f)) != os.path.abspath(os.path.join(dst, f)):
                shutil.copy(os.path.join(args.src, f), dst)
        meta["verified"] = out
        meta["what_was_run"] = ("git worktree of /repo HEAD + git apply patch.diff; tools/run_suite.py <worktree> (only the pre-existing "
                                "failure); tools/run_in_tree.py {/repo,<worktree>} demo.py (exit 0 / 1); harness/check.py <prop> with "
                                "VERIF_REPO=<worktree>")
        json.dump(meta, open(os.path.join(dst, "meta.json"), "w"), indent=1)
    return 0 if ok else 4


if __name__ == "__main__":
    sys.exit(main())
