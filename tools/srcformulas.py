#!/usr/bin/env python3
"""srcformulas.py [<tree>] [--out FILE | --json | --keys]: TRANSLATOR for the formula-shaped part of cr.cube.

The twin of srctables.py for ARITHMETIC.  For every entry of FORMULAS (a method of the library whose body is
straight-line numpy arithmetic) it parses the CURRENT working tree with `ast` (nothing is imported or executed),
extracts the arithmetic of that method syntactically and re-states it as Lean definitions over the model's number
types — one `def` per Python assignment / return — and a theorem

    theorem <name> <binders> : src_<name> <args> = <the model's cell function> <args>

for ALL argument values (`Val` includes NaN / +-inf), closed by one generic tactic script (rfl; unfold every
generated def and the model's defs and compare; normalise commutative `+` / `*` of `Val`; see `TACTIC`).

READING OF THE PYTHON (the trusted part of the translator; everything else is checked by Lean):
  * an array name is read as "the value in one cell": numpy's elementwise `+ - * /`, `**`, `np.sqrt`, `np.abs`
    and broadcasting (incl. an explicit `np.broadcast_to(x, shape)`, read as `x`) act cell by cell;
  * `+ - * /` are `Val`'s IEEE-style total operations (x/0 = +-inf, 0/0 = nan, ... Model/Val.lean; rounding is not
    modelled); a numeric literal is the exact rational its decimal text denotes (`1.0` = 1, `1.959964` =
    1959964/1000000); a module-level `NAME = <number>` is that literal;
  * `e ** k`, `np.power(e, k)`, `pow(e, k)` with a literal integer 1 <= k <= 4 is the k-fold left-nested product;
  * `np.sqrt(e)` is the symbolic `Out.sqrt e`, `a / np.sqrt(b)` is `Out.divSqrt a b`, `<literal> * <symbolic>`
    is `Out.scale`, `<value> * <symbolic>` is `Src.vmul` (Lemmas/SrcArith.lean);
  * docstrings, `with np.errstate(...)` wrappers and guards (`if c: return <non-arithmetic>`) are skipped; an `if`
    whose branch contains arithmetic is followed as a separate straight-line path;
  * operands that are not arithmetic (attribute reads `self.a.b`, subscripts of them, calls of other helpers on
    such operands) are opaque PARAMETERS, universally quantified in the theorem; function parameters are
    identified by position, attribute reads by their dotted path; local names are irrelevant (they only name the
    generated defs, which the tactic unfolds).  An operand the tie does not know becomes an extra universally
    quantified parameter (the theorem then fails unless the operand cancels out).

POLICY (same as srctables): a method that cannot be found in this shape gives NO obligation and no alarm
(`unextractable`); a formula that IS extracted but whose theorem no longer checks is a broken proof obligation.
"""
import ast
import json
import os
import re
import sys
from fractions import Fraction


class Unextractable(Exception):
    pass


# ---------------------------------------------------------------------------------------------------------
# the tie: which method <-> which model function


def F(name, prop, file, cls, method, binders, args, rhs, unfold=(), result="Out", types=None, blocks=None,
      sqrt="CrCube.Out.sqrt", tactic=None, locals_=None, what="", hyp="", example=""):
    return dict(name=name, prop=prop, file=file, cls=cls, method=method, binders=binders, args=args, rhs=rhs,
                unfold=list(unfold), result=result, types=types or {}, blocks=blocks, sqrt=sqrt, tactic=tactic,
                locals=locals_ or {}, what=what, hyp=hyp, example=example)


_SOM = "self._second_order_measures."
_VAR4 = "(v b : Val)"


def _stderr(name, cls, direction):
    return F(name, "C11", "matrix/measure.py", cls, "blocks", "(c : CrCube.VarCell)",
             {_SOM + direction + "_proportion_variances.blocks[@]": "c.variance", _SOM + direction + "_weighted_bases.blocks[@]": "c.total"},
             "c.stdErr", unfold=["CrCube.VarCell.stdErr"], blocks=(2, 2),
             what="sqrt(variance / weighted base) = `VarCell.stdErr` of the cell whose variance and total are those block values")


FORMULAS = [
    # ---- C12 ------------------------------------------------------------------------------------------------
    F("zscores", "C12", "matrix/measure.py", "_Zscores", "_calculate_zscores", "(n t r c : Val)",
      {"#1": "n", "#2": "t", "#3": "r", "#4": "c"}, "CrCube.ZCell.z ⟨n, t, r, c⟩",
      unfold=["CrCube.ZCell.z", "CrCube.ZCell.expected", "CrCube.ZCell.variance"],
      locals_={"expected_counts": "CrCube.ZCell.expected ⟨n, t, r, c⟩", "variance": "CrCube.ZCell.variance ⟨n, t, r, c⟩"},
      what="(counts - r*c/T) / sqrt(r*c*(T-r)*(T-c)/T**3)"),
    # ---- C11 ------------------------------------------------------------------------------------------------
    F("calc_var", "C11", "matrix/measure.py", "_ProportionVariances", "_calc_var", "(p nt np ni nn : Val)",
      {"#1": "p", "#2": "nt", "#3": "np", "#4": "ni", "#5": "nn"}, "CrCube.calcVar p nt np ni nn",
      unfold=["CrCube.calcVar"], result="Val", what="the three-term variance"),
    F("count_ignored", "C11", "matrix/measure.py", "_ProportionVariances", "_count_ignored", "(nt np nn : Val)",
      {"self._count_total[@]": "nt", "self._count_positive[@]": "np", "self._count_negative[@]": "nn"},
      "CrCube.countIgnored nt np nn", unfold=["CrCube.countIgnored"], result="Val", blocks=(2, 2),
      what="total - positive - negative"),
    _stderr("row_std_err", "_RowStandardError", "row"),
    _stderr("column_std_err", "_ColumnStandardError", "column"),
    _stderr("table_std_err", "_TableStandardError", "table"),
    F("row_std_dev", "C11", "cubepart.py", "_Slice", "row_std_dev", "(c : CrCube.VarCell)",
      {"self.row_proportion_variances": "c.variance"}, "c.stdDev", unfold=["CrCube.VarCell.stdDev"], what="sqrt(variance)  (`VarCell.stdDev`)"),
    F("column_std_dev", "C11", "cubepart.py", "_Slice", "column_std_dev", "(c : CrCube.VarCell)",
      {"self.column_proportion_variances": "c.variance"}, "c.stdDev", unfold=["CrCube.VarCell.stdDev"], what="sqrt(variance)"),
    F("table_std_dev", "C11", "cubepart.py", "_Slice", "table_std_dev", "(c : CrCube.VarCell)",
      {"self.table_proportion_variances": "c.variance"}, "c.stdDev", unfold=["CrCube.VarCell.stdDev"], what="sqrt(variance)"),
    F("row_moe", "C11", "cubepart.py", "_Slice", "row_proportions_moe", "(se : Out)",
      {"self.row_std_err": "se"}, "CrCube.moeOf se", unfold=["CrCube.moeOf", "CrCube.Z975"], types={"self.row_std_err": "Out"},
      what="Z_975 * std_err"),
    F("column_moe", "C11", "cubepart.py", "_Slice", "column_proportions_moe", "(se : Out)",
      {"self.column_std_err": "se"}, "CrCube.moeOf se", unfold=["CrCube.moeOf", "CrCube.Z975"],
      types={"self.column_std_err": "Out"}, what="Z_975 * std_err"),
    F("table_moe", "C11", "cubepart.py", "_Slice", "table_proportions_moe", "(se : Out)",
      {"self.table_std_err": "se"}, "CrCube.moeOf se", unfold=["CrCube.moeOf", "CrCube.Z975"],
      types={"self.table_std_err": "Out"}, what="Z_975 * std_err"),
    F("strand_variance_base", "C11", "stripe/measure.py", "_TableProportionVariances", "base_values", "(p : Val)",
      {"self._measures.table_proportions.base_values": "p"}, "p * (Val.fin 1 - p)", result="Val",
      what="p * (1 - p): the non-inserted branch of `StrandCell.variance`"),
    F("strand_variance_subtotal", "C11", "stripe/measure.py", "_TableProportionVariances", "subtotal_values",
      "(p nt np nn : Val)",
      {"self._measures.table_proportions.subtotal_values": "p",
       "self._measures.weighted_bases.subtotal_values": "nt",
       "PositiveTermSubtotals.subtotal_values(self._measures.weighted_counts.base_values, self._rows_dimension)": "np",
       "NegativeTermSubtotals.subtotal_values(self._measures.weighted_counts.base_values, self._rows_dimension)": "nn"},
      "CrCube.varianceOf p nt np nn", unfold=["CrCube.varianceOf", "CrCube.calcVar", "CrCube.countIgnored"], result="Val",
      what="three-term variance with Ni = Nt - Np - Nn: the inserted branch of `StrandCell.variance`"),
    F("strand_std_dev_base", "C11", "stripe/measure.py", "_TableProportionStddevs", "base_values", "(c : CrCube.StrandCell)",
      {"self._measures.table_proportion_variances.base_values": "c.variance"}, "c.stdDev", unfold=["CrCube.StrandCell.stdDev"],
      what="sqrt(variance) = `StrandCell.stdDev`"),
    F("strand_std_dev_subtotal", "C11", "stripe/measure.py", "_TableProportionStddevs", "subtotal_values", "(c : CrCube.StrandCell)",
      {"self._measures.table_proportion_variances.subtotal_values": "c.variance"}, "c.stdDev", unfold=["CrCube.StrandCell.stdDev"],
      what="sqrt(variance) = `StrandCell.stdDev`"),
    F("strand_std_err_base", "C11", "stripe/measure.py", "_TableProportionStderrs", "base_values", "(c : CrCube.StrandCell)",
      {"self._measures.table_proportion_variances.base_values": "c.variance", "self._measures.weighted_bases.base_values": "c.base"},
      "c.stdErr", unfold=["CrCube.StrandCell.stdErr"], what="sqrt(variance / weighted base) = `StrandCell.stdErr`"),
    F("strand_std_err_subtotal", "C11", "stripe/measure.py", "_TableProportionStderrs", "subtotal_values", "(c : CrCube.StrandCell)",
      {"self._measures.table_proportion_variances.subtotal_values": "c.variance", "self._measures.weighted_bases.subtotal_values": "c.base"},
      "c.stdErr", unfold=["CrCube.StrandCell.stdErr"], what="sqrt(variance / weighted base) = `StrandCell.stdErr`"),
    F("strand_moe", "C11", "cubepart.py", "_Strand", "table_proportion_moes", "(se : Out)",
      {"self.table_proportion_stderrs": "se"}, "CrCube.moeOf se", unfold=["CrCube.moeOf", "CrCube.Z975"],
      types={"self.table_proportion_stderrs": "Out"}, what="Z_975 * std_err"),
    # ---- C16 ------------------------------------------------------------------------------------------------
    F("column_index", "C16", "matrix/measure.py", "_ColumnIndex", "_column_index", "(count colBase baseline : Val)",
      {_SOM + "weighted_counts.blocks[0][0]": "count", _SOM + "column_weighted_bases.blocks[0][0]": "colBase",
       "self._cube_measures.unconditional_cube_counts.baseline": "baseline"},
      "CrCube.columnIndexBase count colBase baseline", unfold=["CrCube.columnIndexBase"], result="Val",
      what="100 * ((counts / column base) / baseline)"),
    # ---- C17 ------------------------------------------------------------------------------------------------
    F("population_counts", "C17", "cubepart.py", "_Slice", "population_counts", "(s : CrCube.Population.SliceIn) (population fraction : Val) (i j : Nat)",
      {"self.population_proportions": "(s.popProps i j)", "self._population": "population",
       "self._cube.population_fraction": "fraction"},
      "s.popCounts population fraction i j", unfold=["CrCube.Population.SliceIn.popCounts"], result="Val",
      what="population_proportions * population * population_fraction"),
    F("population_moe", "C17", "cubepart.py", "_Slice", "population_counts_moe", "(population fraction : Val) (se : Out)",
      {"self._population": "population", "self._cube.population_fraction": "fraction", "self.population_std_err": "se"},
      "CrCube.Population.moe population fraction se", unfold=["CrCube.Population.moe", "CrCube.Population.Z975"],
      types={"self.population_std_err": "Out"}, tactic="vmul",
      what="Z_975 * (population * population_fraction) * std_err"),
    F("strand_population_counts", "C17", "cubepart.py", "_Strand", "population_counts",
      "(s : CrCube.Population.StrandIn) (population fraction : Val) (i : Nat)",
      {"self.population_proportions": "(s.popProps i)", "self._population": "population",
       "self._cube.population_fraction": "fraction"},
      "s.popCounts population fraction i", unfold=["CrCube.Population.StrandIn.popCounts"], result="Val",
      what="population_proportions * population * population_fraction"),
    F("strand_population_moe", "C17", "cubepart.py", "_Strand", "population_counts_moe", "(population fraction : Val) (se : Out)",
      {"self._population": "population", "self._cube.population_fraction": "fraction",
       "self.population_proportion_stderrs": "se"},
      "CrCube.Population.moe population fraction se", unfold=["CrCube.Population.moe", "CrCube.Population.Z975"],
      types={"self.population_proportion_stderrs": "Out"}, tactic="vmul",
      what="Z_975 * (population * population_fraction) * std_err"),
    # ---- C13 ------------------------------------------------------------------------------------------------
    F("pairwise_t", "C13", "matrix/measure.py", "_PairwiseSigTstats", "_calculate_t_stats", "(p n pRef nRef : Val)",
      {"#1": "p", "#2": "n", "#3": "pRef", "#4": "nRef"}, "CrCube.Pairwise.tStat p n pRef nRef",
      unfold=["CrCube.Pairwise.tStat"], what="(p - p_ref) / sqrt(|p(1-p)/n + p_ref(1-p_ref)/n_ref|)"),
    F("effective_base", "C13", "matrix/measure.py", "_PairwiseSigTstats", "_column_bases", "(w s : Val)",
      {_SOM + "column_weighted_bases.blocks[@]": "w", _SOM + "column_squared_bases.blocks[@]": "s"},
      "w * w / s", result="Val", blocks=(2, 2), what="effective base (sum w)^2 / sum w^2: the `zipMat` cell function of `PwIn.bases`"),
    F("means_t", "C13", "matrix/measure.py", "_PairwiseMeansSigTStats", "t_stats", "(m sd n mRef sdRef nRef : Val)",
      {"self._cube_measures.cube_means.means": "m", "self._cube_measures.cube_stddev.stddev": "sd",
       "self._cube_measures.unweighted_cube_counts.counts": "n",
       "self._cube_measures.cube_means.means[:, [self._selected_column_idx]]": "mRef",
       "self._cube_measures.cube_stddev.stddev[:, [self._selected_column_idx]]": "sdRef",
       "self._cube_measures.unweighted_cube_counts.counts[:, [self._selected_column_idx]]": "nRef"},
      "CrCube.Pairwise.welchT m (CrCube.Pairwise.sq sd) n mRef (CrCube.Pairwise.sq sdRef) nRef",
      unfold=["CrCube.Pairwise.welchT", "CrCube.Pairwise.sq"], what="Welch t: (m - m_ref) / sqrt(s^2/n + s_ref^2/n_ref)"),
    F("means_df", "C13", "matrix/measure.py", "_PairwiseMeansSigPVals", "_df", "(sd n sdRef nRef : Val)",
      {"self._cube_measures.cube_stddev.stddev": "sd",
       "self._cube_measures.unweighted_cube_counts.counts": "n",
       "self._cube_measures.cube_stddev.stddev[:, [self._selected_column_idx]]": "sdRef",
       "self._cube_measures.unweighted_cube_counts.counts[:, [self._selected_column_idx]]": "nRef"},
      "CrCube.Pairwise.welchDf (CrCube.Pairwise.sq sd) n (CrCube.Pairwise.sq sdRef) nRef",
      unfold=["CrCube.Pairwise.welchDf", "CrCube.Pairwise.sq"], result="Val", what="Welch-Satterthwaite degrees of freedom"),
    F("overlap_t", "C13", "matrix/measure.py", "_PairwiseSignificaneBetweenSubvariablesHelper", "t_stats",
      "(x : CrCube.Pairwise.OvIn) (i a b : Nat)",
      {"self._column_proportions[self._row_idx, self._idx_a]": "(x.props.get i a)",
       "self._column_proportions[self._row_idx, self._idx_b]": "(x.props.get i b)",
       "self._selected_counts[0]": "(CrCube.Pairwise.get3 x.sel i a a)", "self._selected_counts[1]": "(CrCube.Pairwise.get3 x.sel i b b)",
       "self._selected_counts[2]": "(CrCube.Pairwise.get3 x.sel i a b)",
       "self._valid_counts[0]": "(CrCube.Pairwise.get3 x.valid i a a)", "self._valid_counts[1]": "(CrCube.Pairwise.get3 x.valid i b b)",
       "self._valid_counts[2]": "(CrCube.Pairwise.get3 x.valid i a b)", "self._df": "(x.df i a b)"},
      "x.t i a b", unfold=["CrCube.Pairwise.OvIn.t", "CrCube.Pairwise.OvIn.den"], hyp="(h : a ≠ b)",
      example="example : (0 : Nat) ≠ 1 := by decide",
      what="overlap t statistic for two different subvariables (the `a = b` case is the guard `return 0.0`)"),
    F("overlap_df", "C13", "matrix/measure.py", "_PairwiseSignificaneBetweenSubvariablesHelper", "_df",
      "(x : CrCube.Pairwise.OvIn) (i a b : Nat)",
      {"self._valid_counts[0]": "(CrCube.Pairwise.get3 x.valid i a a)", "self._valid_counts[1]": "(CrCube.Pairwise.get3 x.valid i b b)",
       "self._valid_counts[2]": "(CrCube.Pairwise.get3 x.valid i a b)"},
      "x.df i a b", unfold=["CrCube.Pairwise.OvIn.df"], result="Val", what="Na + Nb - Nab (`OvIn.df`)"),
    # ---- C03 ------------------------------------------------------------------------------------------------
    F("row_percentages", "C03", "cubepart.py", "_Slice", "row_percentages", "(f : Nat → Nat → Val) (i j : Nat)",
      {"self.row_proportions": "(f i j)"}, "CrCube.MatCounts.pct f i j", unfold=["CrCube.MatCounts.pct"], result="Val",
      what="proportions * 100"),
    F("column_percentages", "C03", "cubepart.py", "_Slice", "column_percentages", "(f : Nat → Nat → Val) (i j : Nat)",
      {"self.column_proportions": "(f i j)"}, "CrCube.MatCounts.pct f i j", unfold=["CrCube.MatCounts.pct"], result="Val",
      what="proportions * 100"),
    F("table_percentages", "C03", "cubepart.py", "_Slice", "table_percentages", "(f : Nat → Nat → Val) (i j : Nat)",
      {"self.table_proportions": "(f i j)"}, "CrCube.MatCounts.pct f i j", unfold=["CrCube.MatCounts.pct"], result="Val",
      what="proportions * 100"),
    F("column_proportions_base", "C03", "matrix/measure.py", "_ColumnProportions", "_base_values",
      "(m : CrCube.MatCounts) (i j : Nat)",
      {"self._count_blocks[0][0]": "(m.counts i j)", "self._weighted_base_blocks[0][0]": "(m.columnBases i j)"},
      "CrCube.MatCounts.columnProportions m i j", unfold=["CrCube.MatCounts.columnProportions"], result="Val",
      what="counts / column bases"),
    F("row_proportions", "C03", "matrix/measure.py", "_RowProportions", "blocks", "(cnt base : Val)",
      {"self._count_blocks[@]": "cnt", "self._weighted_base_blocks[@]": "base"}, "cnt / base", result="Val", blocks=(2, 2),
      what="counts / row bases in the base and intersection blocks (the quotient of `MatCounts.rowProportions`, `VarCell.proportion`)"),
    F("table_proportions", "C03", "matrix/measure.py", "_TableProportions", "blocks", "(cnt base : Val)",
      {_SOM + "weighted_counts.blocks[@]": "cnt", _SOM + "table_weighted_bases.blocks[@]": "base"}, "cnt / base", result="Val",
      blocks=(2, 2), what="counts / table bases in all four blocks (the quotient of `MatCounts.tableProportions`, `VarCell.proportion`)"),
    F("strand_table_proportions", "C03", "stripe/measure.py", "_TableProportions", "base_values", "(cnt base : Val)",
      {"self._measures.weighted_counts.base_values": "cnt", "self._weighted_cube_counts.bases": "base"}, "cnt / base", result="Val",
      what="weighted counts / weighted bases (`StrandCell.proportion` default)"),
    F("strand_table_percentages", "C03", "cubepart.py", "_Strand", "table_percentages", "(p : Val)",
      {"self.table_proportions": "p"}, "p * Val.fin 100", result="Val", what="strand table proportions * 100 (the cell function of `MatCounts.pct`)"),
    F("column_proportions_intersections", "C03", "matrix/measure.py", "_ColumnProportions", "_intersections", "(cnt base : Val)",
      {"self._count_blocks[1][1]": "cnt", "self._weighted_base_blocks[1][1]": "base"}, "cnt / base", result="Val",
      what="intersection counts / intersection column bases (`VarCell.proportion` default for the column direction)"),
    F("margin_table_proportion", "C03", "matrix/measure.py", "_MarginTableProportion", "blocks", "(num den : Val)",
      {"self._proportion_numerators[@]": "num", "self._proportion_denominators[@]": "den"}, "num / den", result="Val", blocks=(2,),
      what="margin numerators / table-base denominators, base values and subtotals (`MatCounts.rows/columnsMarginProportion` quotient)"),
    # ---- C14 ------------------------------------------------------------------------------------------------
    F("strand_scale_mean", "C14", "stripe/measure.py", "_ScaledCounts", "scale_mean", "(scaled total : Val)",
      {"self._total_scaled_count": "scaled", "self._total_weighted_count": "total"}, "scaled / total", result="Val",
      what="total scaled count / total weighted count (the quotient of `Scale.strandMean`; its two None guards stay with the behavioural tie)"),
    F("strand_scale_stddev", "C14", "stripe/measure.py", "_ScaledCounts", "scale_stddev", "(var : Val)",
      {"self._scale_variance": "var"}, "CrCube.Scale.SOut.sqrt var", sqrt="CrCube.Scale.SOut.sqrt", result="SOut",
      what="sqrt(scale variance): the `some var` arm of `strandStats.stddev`"),
    F("strand_scale_stderr", "C14", "stripe/measure.py", "_ScaledCounts", "scale_stderr", "(var total : Val)",
      {"self._scale_variance": "var", "self._total_weighted_count": "total"}, "CrCube.Scale.SOut.sqrt (var / total)",
      sqrt="CrCube.Scale.SOut.sqrt", result="SOut", what="sqrt(scale variance / total weighted count): the `some var` arm of `strandStats.stderr`"),
]

MODEL_IMPORTS = ["CrCube.Lemmas.SrcArith", "CrCube.Model.Zscore", "CrCube.Model.Variance", "CrCube.Model.ColumnIndex",
                 "CrCube.Model.Population", "CrCube.Model.Pairwise", "CrCube.Model.SliceApi", "CrCube.Model.Scale"]

# ---------------------------------------------------------------------------------------------------------
# extraction

ARITH_CALLS = {"np.sqrt": "sqrt", "numpy.sqrt": "sqrt", "np.abs": "abs", "np.absolute": "abs", "abs": "abs",
               "np.fabs": "abs"}
POW_CALLS = {"np.power", "pow", "numpy.power"}
BIN_CALLS = {"np.divide": "div", "np.true_divide": "div", "np.multiply": "mul", "np.add": "add", "np.subtract": "sub"}
IDENT_CALLS = {"np.broadcast_to"}
BINOPS = {ast.Add: "add", ast.Sub: "sub", ast.Mult: "mul", ast.Div: "div"}


def _parse(path):
    with open(path) as fh:
        return ast.parse(fh.read(), filename=path)


def _find_method(tree, cls, method):
    for n in tree.body:
        if isinstance(n, ast.ClassDef) and n.name == cls:
            for f in n.body:
                if isinstance(f, ast.FunctionDef) and f.name == method:
                    return f
    return None


def _module_consts(tree):
    out = {}
    for n in tree.body:
        if isinstance(n, ast.Assign) and len(n.targets) == 1 and isinstance(n.targets[0], ast.Name):
            c = _const(n.value)
            if c is not None:
                out[n.targets[0].id] = c
    return out


def _const(v):
    """numeric literal (optionally signed) -> Fraction of its decimal text, else None"""
    if isinstance(v, ast.UnaryOp) and isinstance(v.op, (ast.USub, ast.UAdd)):
        c = _const(v.operand)
        if c is None:
            return None
        return -c if isinstance(v.op, ast.USub) else c
    if isinstance(v, ast.Constant) and isinstance(v.value, (int, float)) and not isinstance(v.value, bool):
        try:
            return Fraction(repr(v.value))
        except (ValueError, OverflowError):
            return None
    return None


def _dotted(n):
    if isinstance(n, ast.Name):
        return n.id
    if isinstance(n, ast.Attribute):
        d = _dotted(n.value)
        return None if d is None else d + "." + n.attr
    return None


def _has_arith(node):
    """does the python expression contain arithmetic the translator would have to read?"""
    for n in ast.walk(node):
        if isinstance(n, ast.BinOp):
            return True
        if isinstance(n, ast.Call):
            d = _dotted(n.func)
            if d in ARITH_CALLS or d in POW_CALLS or d in BIN_CALLS:
                return True
    return False


class Extractor:
    """one method body -> straight-line IR"""

    def __init__(self, fn, consts):
        self.fn = fn
        self.consts = consts
        names = [a.arg for a in fn.args.args]
        if names and names[0] in ("self", "cls"):
            names = names[1:]
        self.params = {nm: "#%d" % (i + 1) for i, nm in enumerate(names)}
        self.guards = 0

    # ---- expressions -> IR --------------------------------------------------------------------------------
    def expr(self, e, env):
        c = _const(e)
        if c is not None:
            return ("const", c)
        if isinstance(e, ast.Name):
            if e.id in env:
                v = env[e.id]
                return v if v[0] in ("atom", "const", "list", "tuple") else ("local", e.id, env["$ver"].get(e.id, 0))
            if e.id in self.params:
                return ("atom", self.params[e.id])
            if e.id in self.consts:
                return ("const", self.consts[e.id])
            return ("atom", e.id)
        if isinstance(e, ast.BinOp):
            if type(e.op) in BINOPS:
                return (BINOPS[type(e.op)], self.expr(e.left, env), self.expr(e.right, env))
            if isinstance(e.op, ast.Pow):
                return self._pow(self.expr(e.left, env), e.right)
            raise Unextractable("operator %s" % type(e.op).__name__)
        if isinstance(e, ast.UnaryOp) and isinstance(e.op, ast.USub):
            return ("neg", self.expr(e.operand, env))
        if isinstance(e, ast.UnaryOp) and isinstance(e.op, ast.UAdd):
            return self.expr(e.operand, env)
        if isinstance(e, (ast.List, ast.Tuple)):
            return ("list" if isinstance(e, ast.List) else "tuple", [self.expr(x, env) for x in e.elts])
        if isinstance(e, ast.Call):
            d = _dotted(e.func)
            if d in ARITH_CALLS and len(e.args) == 1 and not e.keywords:
                return (ARITH_CALLS[d], self.expr(e.args[0], env))
            if d in POW_CALLS and len(e.args) == 2 and not e.keywords:
                return self._pow(self.expr(e.args[0], env), e.args[1])
            if d in BIN_CALLS and len(e.args) == 2 and not e.keywords:
                return (BIN_CALLS[d], self.expr(e.args[0], env), self.expr(e.args[1], env))
            if d in IDENT_CALLS and len(e.args) == 2 and not e.keywords:
                return self.expr(e.args[0], env)
            if d == "np.square" and len(e.args) == 1:
                return ("pow", self.expr(e.args[0], env), 2)
            return self._opaque(e, env)
        if isinstance(e, ast.Subscript) and isinstance(e.value, ast.Name) and e.value.id in env \
                and env[e.value.id][0] not in ("atom", "const", "list", "tuple"):
            # a subscript of a COMPUTED local: elementwise arithmetic commutes with indexing, so the index is pushed
            # down to the operands (`variance = np.power(stddev, 2); variance[:, [idx]]` reads `stddev[:, [idx]] ** 2`)
            return self._push(env[e.value.id], self._idx(e.slice, env), env)
        if isinstance(e, (ast.Attribute, ast.Subscript)):
            return self._opaque(e, env)
        raise Unextractable("expression %s" % type(e).__name__)

    def _push(self, ir, idx, env):
        t = ir[0]
        if t == "atom":
            return ("atom", "%s[%s]" % (ir[1], idx))
        if t == "const":
            return ir
        if t == "local":
            for n, v, d, _, _ in env["$defs"]:
                if (n, v) == (ir[1], ir[2]):
                    return self._push(d, idx, env)
            raise Unextractable("unknown local")
        if t in ("neg", "abs", "sqrt"):
            return (t, self._push(ir[1], idx, env))
        if t == "pow":
            return (t, self._push(ir[1], idx, env), ir[2])
        if t in ("add", "sub", "mul", "div"):
            return (t, self._push(ir[1], idx, env), self._push(ir[2], idx, env))
        raise Unextractable("subscript of a list")

    def _pow(self, base, k):
        c = _const(k)
        if c is None or c.denominator != 1 or not (1 <= c.numerator <= 4):
            raise Unextractable("power with a non-literal or unsupported exponent")
        return ("pow", base, int(c.numerator))

    def _opaque(self, e, env):
        """attribute read / subscript / foreign call: an opaque parameter, keyed by its normalised source text"""
        return ("atom", self._key(e, env))

    def _key(self, e, env):
        if isinstance(e, ast.Name):
            if e.id in env:
                v = env[e.id]
                if v[0] == "atom":
                    return v[1]
                raise Unextractable("subscript / attribute of the computed local `%s`" % e.id)
            if e.id in self.params:
                return self.params[e.id]
            return e.id
        if isinstance(e, ast.Attribute):
            return self._key(e.value, env) + "." + e.attr
        if isinstance(e, ast.Subscript):
            base = e.value
            if isinstance(base, ast.Name) and base.id in env and env[base.id][0] in ("list", "tuple"):
                raise Unextractable("subscript of a local list")
            return self._key(base, env) + "[" + self._idx(e.slice, env) + "]"
        if isinstance(e, ast.Call):
            f = self._key(e.func, env)
            args = [self._arg(a, env) for a in e.args] + ["%s=%s" % (k.arg, self._arg(k.value, env)) for k in e.keywords]
            return f + "(" + ", ".join(args) + ")"
        raise Unextractable("operand %s" % type(e).__name__)

    def _arg(self, a, env):
        if _has_arith(a):
            raise Unextractable("arithmetic inside the argument of a foreign call")
        if isinstance(a, (ast.Name, ast.Attribute, ast.Subscript, ast.Call)):
            return self._key(a, env)
        return ast.unparse(a)

    def _idx(self, s, env):
        if _has_arith(s):
            raise Unextractable("arithmetic inside a subscript")
        txt = ", ".join(ast.unparse(x) for x in s.elts) if isinstance(s, ast.Tuple) else ast.unparse(s)
        # local aliases inside an index (`idx = self._selected_column_idx; means[:, [idx]]`) are resolved
        for n in ast.walk(s):
            if isinstance(n, ast.Name) and n.id in env and env[n.id][0] == "atom":
                txt = re.sub(r"\b%s\b" % re.escape(n.id), env[n.id][1], txt)
        return txt

    # ---- statements ----------------------------------------------------------------------------------------
    def run(self):
        """-> list of (defs, ret_ir, lineno): one entry per return that carries arithmetic"""
        self.returns = []
        self._block(self.fn.body, {"$defs": [], "$ver": {}})
        return self.returns

    def _bind(self, env, name, ir, lineno, src):
        ver = env["$ver"].get(name, -1) + 1
        env["$ver"] = dict(env["$ver"], **{name: ver})
        env[name] = ir
        if ir[0] not in ("atom", "const", "list", "tuple"):
            env["$defs"] = env["$defs"] + [(name, ver, ir, lineno, src)]

    def _block(self, stmts, env):
        """returns True if the block always returns"""
        for i, s in enumerate(stmts):
            if isinstance(s, ast.Expr) and isinstance(s.value, ast.Constant) and isinstance(s.value.value, str):
                continue                                                    # docstring
            if isinstance(s, ast.With):
                ok = all(isinstance(it.context_expr, ast.Call) and _dotted(it.context_expr.func) in ("np.errstate", "numpy.errstate")
                         and it.optional_vars is None for it in s.items)
                if not ok:
                    raise Unextractable("`with` other than np.errstate")
                if self._block(s.body, env):
                    return True
                continue
            if isinstance(s, ast.Assign) and len(s.targets) == 1:
                t = s.targets[0]
                src = ast.unparse(s)
                if isinstance(t, ast.Name):
                    self._bind(env, t.id, self.expr(s.value, env), s.lineno, src)
                    continue
                if isinstance(t, ast.Tuple) and all(isinstance(x, ast.Name) for x in t.elts):
                    v = self.expr(s.value, env)
                    if v[0] in ("tuple", "list") and len(v[1]) == len(t.elts):
                        for x, vi in zip(t.elts, v[1]):
                            self._bind(env, x.id, vi, s.lineno, src)
                        continue
                    if v[0] == "atom":
                        for k, x in enumerate(t.elts):
                            self._bind(env, x.id, ("atom", "%s[%d]" % (v[1], k)), s.lineno, src)
                        continue
                raise Unextractable("assignment target")
            if isinstance(s, ast.Return):
                if s.value is not None and (_has_arith(s.value) or self._local_arith(s.value, env)):
                    self.returns.append((list(env["$defs"]), self.expr(s.value, env), s.lineno, ast.unparse(s)))
                return True
            if isinstance(s, ast.If):
                # a guard (`if c: return <non-arithmetic>`) is skipped; a branch with arithmetic is a path of its own
                for branch in (s.body, s.orelse):
                    if not branch:
                        continue
                    sub = dict(env)
                    try:
                        done = self._block(branch, sub)
                    except Unextractable:
                        raise
                    if not done:
                        raise Unextractable("`if` branch that falls through (not straight-line)")
                self.guards += 1
                if s.orelse:
                    return True
                continue
            if isinstance(s, (ast.Pass,)):
                continue
            raise Unextractable("statement %s" % type(s).__name__)
        return False

    def _local_arith(self, v, env):
        """`return x` where x is a computed local (or a list of them)"""
        def names_only(x):
            return isinstance(x, ast.Name) or (isinstance(x, (ast.List, ast.Tuple)) and all(names_only(y) for y in x.elts))
        if not names_only(v):
            return False
        for n in ast.walk(v):
            if isinstance(n, ast.Name) and n.id in env and not n.id.startswith("$"):
                ir = env[n.id]
                if ir[0] not in ("atom", "const") and _ir_arith(ir):
                    return True
        return False


def _ir_arith(ir):
    if ir[0] in ("atom", "const"):
        return False
    if ir[0] == "local":
        return True
    if ir[0] in ("list", "tuple"):
        return any(_ir_arith(x) for x in ir[1])
    return True


# ---------------------------------------------------------------------------------------------------------
# IR -> Lean


def _ident(s):
    s = re.sub(r"\W", "_", s)
    return s if re.match(r"[A-Za-z_]", s) else "v" + s


def _rat(c):
    """exact rational of a decimal literal, written the way the models write theirs"""
    if c.denominator == 1:
        return "(%d : Rat)" % c.numerator
    # decimal text p / 10^k  (1.959964 -> 1959964 / 1000000), not reduced: syntactically the model's constant
    den = 1
    while (c * den).denominator != 1:
        den *= 10
        if den > 10 ** 30:
            return "((%d : Rat) / %d)" % (c.numerator, c.denominator)
    return "(%d / %d : Rat)" % ((c * den).numerator, den)


class Renderer:
    def __init__(self, spec, defs, pos=None):
        self.spec = spec
        self.pos = pos
        self.defs = {(n, v): (ir, ln, src) for n, v, ir, ln, src in defs}
        self.order = [(n, v) for n, v, _, _, _ in defs]
        self.extra = []                    # unknown operand keys, in order of appearance
        self.ltypes = {}
        for k in self.order:
            self.ltypes[k] = self.typ(self.defs[k][0])

    def key(self, k):
        if self.pos is not None:
            suf = "".join("[%d]" % i for i in self.pos)
            if k.endswith(suf):
                k = k[:-len(suf)] + "[@]"
        return k

    def pname(self, k):
        k = self.key(k)
        keys = list(self.spec["args"].keys())
        if k in keys:
            return "a%d" % (keys.index(k) + 1)
        if k not in self.extra:
            self.extra.append(k)
        return "x%d" % (self.extra.index(k) + 1)

    def ptype(self, k):
        return self.spec["types"].get(self.key(k), "Val")

    def typ(self, ir):
        t = ir[0]
        if t == "atom":
            return self.ptype(ir[1])
        if t == "const":
            return "Val"
        if t == "local":
            return self.ltypes[(ir[1], ir[2])]
        if t == "sqrt":
            if self.typ(ir[1]) != "Val":
                raise Unextractable("sqrt of a symbolic term")
            return "Out"
        if t in ("neg", "abs", "pow"):
            if self.typ(ir[1]) != "Val":
                raise Unextractable("%s of a symbolic term" % t)
            return "Val"
        if t in ("add", "sub", "mul", "div"):
            a, b = self.typ(ir[1]), self.typ(ir[2])
            if a == "Val" and b == "Val":
                return "Val"
            if t == "mul" and {a, b} == {"Val", "Out"}:
                return "Out"
            if t == "div" and a == "Val" and b == "Out" and self.resolve(ir[2])[0] == "sqrt":
                return "Out"
            raise Unextractable("%s of %s and %s" % (t, a, b))
        raise Unextractable("list / tuple in arithmetic position")

    def resolve(self, ir):
        """inline symbolic (Out-typed) locals"""
        while ir[0] == "local" and self.ltypes[(ir[1], ir[2])] == "Out":
            ir = self.defs[(ir[1], ir[2])][0]
        return ir

    def params_decl(self):
        ps = []
        for i, k in enumerate(self.spec["args"].keys()):
            ps.append("(a%d : %s)" % (i + 1, self._lt(self.spec["types"].get(k, "Val"))))
        for i, k in enumerate(self.extra):
            ps.append("(x%d : CrCube.Val)" % (i + 1))
        return " ".join(ps)

    def _lt(self, t):
        return {"Val": "CrCube.Val", "Out": "CrCube.Out"}[t]

    def params_use(self):
        return " ".join(["a%d" % (i + 1) for i in range(len(self.spec["args"]))] + ["x%d" % (i + 1) for i in range(len(self.extra))])

    def defname(self, n, v):
        return "src_%s.%s%s" % (self.spec["name"] + (self._possuf()), _ident(n), "" if v == 0 else "_%d" % v)

    def _possuf(self):
        return "" if self.pos is None else "_" + "".join(str(i) for i in self.pos)

    def r(self, ir):
        t = ir[0]
        if t == "atom":
            return self.pname(ir[1])
        if t == "const":
            return "(CrCube.Val.fin %s)" % _rat(ir[1])
        if t == "local":
            if self.ltypes[(ir[1], ir[2])] == "Out":
                return self.r(self.resolve(ir))
            return "(%s @PARAMS@)" % self.defname(ir[1], ir[2])
        if t == "neg":
            return "(-%s)" % self.r(ir[1])
        if t == "abs":
            return "(CrCube.Val.abs %s)" % self.r(ir[1])
        if t == "pow":
            b = self.r(ir[1])
            out = b
            for _ in range(ir[2] - 1):
                out = "(%s * %s)" % (out, b)
            return out
        if t == "sqrt":
            return "(%s %s)" % (self.spec["sqrt"], self.r(ir[1]))
        if t in ("add", "sub", "mul", "div"):
            ta, tb = self.typ(ir[1]), self.typ(ir[2])
            op = {"add": "+", "sub": "-", "mul": "*", "div": "/"}[t]
            if ta == "Val" and tb == "Val":
                return "(%s %s %s)" % (self.r(ir[1]), op, self.r(ir[2]))
            if t == "mul":
                v, o = (ir[1], ir[2]) if ta == "Val" else (ir[2], ir[1])
                if v[0] == "const":
                    return "(CrCube.Out.scale %s %s)" % (_rat(v[1]), self.r(o))
                return "(CrCube.Src.vmul %s %s)" % (self.r(v), self.r(o))
            if t == "div":
                den = self.resolve(ir[2])
                return "(CrCube.Out.divSqrt %s %s)" % (self.r(ir[1]), self.r(den[1]))
        raise Unextractable("cannot render %s" % t)


TACTIC = """  first
    | rfl
    | (simp only [{defs}]; done)
    | (simp only [{defs}, CrCube.Src.ofNat_eq_fin, Nat.cast_ofNat, Nat.cast_one, Nat.cast_zero, CrCube.Val.mul_comm', CrCube.Val.add_comm']; done)
    | (simp only [{defs}, CrCube.Src.ofNat_eq_fin, Nat.cast_ofNat, Nat.cast_one, Nat.cast_zero, CrCube.Val.sub_def, CrCube.Val.neg_add',
         CrCube.Val.neg_neg', CrCube.Val.add_assoc', CrCube.Val.add_comm', CrCube.Val.add_left_comm', CrCube.Val.mul_comm']; done)
    | (simp only [{defs}, CrCube.Src.ofNat_eq_fin, Nat.cast_ofNat, Nat.cast_one, Nat.cast_zero, CrCube.Val.sub_def, CrCube.Val.neg_add',
         CrCube.Val.neg_neg', CrCube.Val.add_assoc', CrCube.Val.add_comm', CrCube.Val.add_left_comm',
         CrCube.Val.mul_assoc', CrCube.Val.mul_comm', CrCube.Val.mul_left_comm']; done)
    | (simp only [{defs}, CrCube.Src.ofNat_eq_fin, Nat.cast_ofNat, Nat.cast_one, Nat.cast_zero, CrCube.Val.sub_def, CrCube.Val.neg_add',
         CrCube.Val.neg_neg', CrCube.Val.div_eq_mul_inv', CrCube.Val.add_assoc', CrCube.Val.add_comm', CrCube.Val.add_left_comm',
         CrCube.Val.mul_assoc', CrCube.Val.mul_comm', CrCube.Val.mul_left_comm']; done)
    | (simp only [{defs}]
       try simp only [CrCube.Src.ofNat_eq_fin, Nat.cast_ofNat, Nat.cast_one, Nat.cast_zero, CrCube.Val.mul_comm', CrCube.Val.add_comm']
       fail "srcformulas: the arithmetic of {where} is not the model's {rhs}")
"""

TACTIC_VMUL = """  first
    | rfl
    | (simp only [{defs}, CrCube.Src.vmul]
       generalize {gen} = x
       cases x <;> simp [CrCube.Val.mul_def, CrCube.Val.mul, CrCube.Val.sgn] <;> norm_num)
    | (simp only [{defs}]
       fail "srcformulas: the arithmetic of {where} is not the model's {rhs}")
"""


def translate_one(spec, tree_root, cache):
    """-> list of {"theorem": name, "lean": text, "where": str, "extras": [...]}; raises Unextractable"""
    path = os.path.join(tree_root, "src", "cr", "cube", spec["file"])
    if path not in cache:
        try:
            t = _parse(path)
        except (OSError, SyntaxError) as e:
            raise Unextractable("cannot parse %s: %s" % (spec["file"], e))
        cache[path] = (t, _module_consts(t))
    tree, consts = cache[path]
    fn = _find_method(tree, spec["cls"], spec["method"])
    if fn is None:
        raise Unextractable("%s.%s not found in %s" % (spec["cls"], spec["method"], spec["file"]))
    ex = Extractor(fn, consts)
    rets = ex.run()
    if len(rets) != 1:
        raise Unextractable("%d arithmetic return paths (expected 1)" % len(rets))
    defs, ret, lineno, retsrc = rets[0]
    where0 = "%s:%d %s.%s" % (spec["file"], lineno, spec["cls"], spec["method"])
    items = []
    if spec["blocks"]:
        shape = spec["blocks"]
        flat = _positions(ret, len(shape))
        if flat is None or sorted(flat) != sorted(_all_pos(shape)):
            raise Unextractable("return value is not a %s nested list" % "x".join(map(str, shape)))
        for pos in sorted(flat):
            if flat[pos][0] != "atom":          # an element that is a plain attribute read carries no arithmetic
                items.append((pos, flat[pos]))
    else:
        if ret[0] in ("list", "tuple"):
            raise Unextractable("return value is a list")
        items.append((None, ret))
    out = []
    for pos, ir in items:
        try:
            out.append(_render_item(spec, defs, pos, ir, where0, retsrc, ex))
        except Unextractable as e:
            # the method WAS found in straight-line shape, but its arithmetic does not have the type of the model's cell
            # function (a dropped sqrt, a numeric factor where a symbolic term is expected, ...): the obligation cannot
            # even be stated -> a broken obligation, not a silent skip
            nm = spec["name"] + ("" if pos is None else "_" + "".join(str(i) for i in pos))
            out.append({"theorems": [nm], "lean": "-- %s: NOT STATABLE: %s\n" % (nm, e), "where": where0, "extras": [],
                        "guards": ex.guards, "static_error": {nm: "the arithmetic of %s (`%s`) cannot be read at the type of the "
                                                                   "model's %s: %s" % (where0, _oneline(retsrc), spec["rhs"], e)}})
    return out


def _render_item(spec, defs, pos, ir, where0, retsrc, ex):
    if True:
        rd = Renderer(spec, defs, pos)
        # render body first (collects extras), then the defs that it (transitively) uses
        body = rd.r(ir)
        rtype = rd.typ(ir)
        used = []
        texts = {}
        for k in rd.order:
            if rd.ltypes[k] == "Val":
                texts[k] = rd.r(rd.defs[k][0])
        want = {"Val": "Val", "Out": "Out", "SOut": "Out"}[spec["result"]]
        if rtype != want:
            raise Unextractable("result is %s where the tie expects %s" % (rtype, want))
        pdecl, puse = rd.params_decl(), rd.params_use()
        lean_rt = {"Val": "CrCube.Val", "Out": "CrCube.Out", "SOut": "CrCube.Scale.SOut"}[spec["result"]]
        nm = spec["name"] + rd._possuf()
        lines = []
        dnames = []
        for k in rd.order:
            if k not in texts:
                continue
            ir_k, ln, src = rd.defs[k]
            dn = rd.defname(*k)
            dnames.append(dn)
            lines.append("/-- %s:%d  `%s` -/" % (spec["file"], ln, _oneline(src)))
            lines.append("def %s %s : CrCube.Val :=\n  %s\n" % (dn, pdecl, texts[k].replace("@PARAMS@", puse)))
        lines.append("/-- %s  `%s`%s -/" % (where0, _oneline(retsrc), "" if pos is None else "  element " + "".join("[%d]" % i for i in pos)))
        lines.append("def src_%s %s : %s :=\n  %s\n" % (nm, pdecl, lean_rt, body.replace("@PARAMS@", puse)))
        dnames.append("src_" + nm)
        argterms = " ".join(spec["args"].values())
        xb = "".join(" (x%d : CrCube.Val)" % (i + 1) for i in range(len(rd.extra)))
        xu = "".join(" x%d" % (i + 1) for i in range(len(rd.extra)))
        hyps = re.findall(r"\((\w+) :", spec["hyp"])
        alldefs = ", ".join(dnames + spec["unfold"] + hyps + (["if_false", "if_true", "ne_eq", "not_false_eq_true"] if hyps else []))
        where = where0 + ("" if pos is None else " element " + "".join("[%d]" % i for i in pos))
        if rd.extra:
            where += " (operands the tie does not know: %s)" % "; ".join(rd.extra)
        fmt = dict(defs=alldefs, where=where.replace('"', "'"), rhs=spec["rhs"].replace('"', "'"), gen="population * fraction")
        tac = (TACTIC_VMUL if spec["tactic"] == "vmul" else TACTIC).format(**fmt)
        lines.append("/-- %s: %s -/" % (spec["prop"], spec["what"] or "source arithmetic = model"))
        if spec["example"]:
            lines.append("-- non-vacuity of the hypothesis of `%s`\n%s\n" % (nm, spec["example"]))
        lines.append("theorem %s %s%s%s :\n    src_%s %s%s = %s := by\n%s" % (
            nm, spec["binders"], xb, (" " + spec["hyp"]) if spec["hyp"] else "", nm, argterms, xu, spec["rhs"], tac))
        thms = [nm]
        # optional ties of named locals (only when a local of that name exists; a renamed local simply drops them)
        for lname, lrhs in spec["locals"].items():
            ks = [k for k in rd.order if k[0] == lname and k in texts]
            if len(ks) == 1 and not rd.extra:
                dn = rd.defname(*ks[0])
                tn = "%s_%s" % (nm, _ident(lname))
                lines.append("theorem %s %s :\n    %s %s = %s := by\n%s" % (
                    tn, spec["binders"], dn, argterms, lrhs,
                    TACTIC.format(defs=alldefs, where=where0 + " local " + lname, rhs=lrhs)))
                thms.append(tn)
        return {"theorems": thms, "lean": "\n".join(lines), "where": where, "extras": list(rd.extra), "guards": ex.guards}


def _oneline(s):
    s = " ".join(s.split()).replace("-/", "- /").replace("/-", "/ -")
    return (s[:150] + " …") if len(s) > 150 else s


def _positions(ir, depth, pre=()):
    if depth == 0:
        return {pre: ir}
    if ir[0] not in ("list", "tuple"):
        return None
    out = {}
    for i, x in enumerate(ir[1]):
        sub = _positions(x, depth - 1, pre + (i,))
        if sub is None:
            return None
        out.update(sub)
    return out


def _all_pos(shape):
    if not shape:
        return [()]
    return [(i,) + r for i in range(shape[0]) for r in _all_pos(shape[1:])]


def expected_theorems(spec):
    """names the tie generates for `spec` when the method is extractable (main theorems only)"""
    if spec["blocks"]:
        return [spec["name"] + "_" + "".join(str(i) for i in p) for p in _all_pos(spec["blocks"])]
    return [spec["name"]]


def translate(tree_root):
    """-> {"items": [{"formula", "prop", "theorems", "lean", "where"}], "unextractable": [{"formula", "why"}]}"""
    cache = {}
    items, miss = [], []
    for spec in FORMULAS:
        try:
            for it in translate_one(spec, tree_root, cache):
                it.update(formula=spec["name"], prop=spec["prop"])
                items.append(it)
        except Unextractable as e:
            miss.append({"formula": spec["name"], "prop": spec["prop"], "why": str(e)})
    return {"items": items, "unextractable": miss}


def render(t):
    """-> (lean source, [theorem names])"""
    out = ["-- GENERATED by tools/srcformulas.py from the working tree of crunch-cube; do not edit.\n"]
    out += ["import %s\n" % m for m in MODEL_IMPORTS]
    out.append("\nset_option linter.unusedVariables false\nset_option linter.unusedSimpArgs false\n"
               "set_option linter.unreachableTactic false\nset_option linter.unusedTactic false\n\n"
               "namespace CrCube.SourceFormulas\nopen CrCube\n\n")
    thms = []
    for it in t["items"]:
        out.append(it["lean"])
        out.append("\n")
        if not it.get("static_error"):
            thms += it["theorems"]
    out.append("end CrCube.SourceFormulas\n\n")
    for th in thms:
        out.append("#print axioms CrCube.SourceFormulas.%s\n" % th)
    return "".join(out), thms


def main():
    args = [a for a in sys.argv[1:] if not a.startswith("--")]
    tree = args[0] if args else "/repo"
    t = translate(tree)
    if "--keys" in sys.argv:
        # development aid: the operand keys found in each formula
        for it in t["items"]:
            print(it["formula"], it["theorems"], "extras:", it["extras"])
        for u in t["unextractable"]:
            print("UNEXTRACTABLE", u)
        return
    src, thms = render(t)
    if "--out" in sys.argv:
        with open(sys.argv[sys.argv.index("--out") + 1], "w") as fh:
            fh.write(src)
        print(json.dumps({"theorems": thms, "unextractable": t["unextractable"]}))
    elif "--json" in sys.argv:
        print(json.dumps(t, indent=1))
    else:
        sys.stdout.write(src)


if __name__ == "__main__":
    main()
