#!/usr/bin/env python3
"""Write seeded/README.md: one row per confirmed seeded change (from seeded/*/meta.json)."""
import glob, json, os
ROOT = os.path.dirname(os.path.dirname(os.path.abspath(__file__)))
rows = []
for d in sorted(glob.glob(os.path.join(ROOT, "seeded", "*"))):
    mp = os.path.join(d, "meta.json")
    if not os.path.exists(mp):
        continue
    m = json.load(open(mp))
    v = m.get("verified", {})
    rows.append((os.path.basename(d), m.get("property"), m.get("summary", "").replace("|", "/").replace("\n", " "),
                 m.get("needs", "").replace("|", "/").replace("\n", " "), ", ".join(v.get("caught_by", [])) or "NOT CAUGHT",
                 v.get("repo_head", "")))
with open(os.path.join(ROOT, "seeded", "README.md"), "w") as fh:
    fh.write("# Seeded changes (independently written; confirmed by tools/seeded_eval.py)\n\n")
    fh.write("Each directory holds patch.diff, demo.py (exit 0 on /repo, 1 with the change) and meta.json (incl. the `verified` block:\n"
             "patch applies to the recorded /repo HEAD, suite shows only the pre-existing failure, demo exits, which checks exit 1 with VERIF_REPO=<changed tree>).\n\n")
    fh.write("| id | property | change | needs | caught by (quick tier, seeds 0-1) |\n|---|---|---|---|---|\n")
    for r in rows:
        fh.write("| %s | %s | %s | %s | %s |\n" % (r[0], r[1], r[2][:260], r[3][:200], r[4]))
    n = len(rows)
    c = sum(1 for r in rows if r[4] != "NOT CAUGHT")
    fh.write("\n%d seeded changes, %d caught.\n" % (n, c))
print(len(rows), "rows")
