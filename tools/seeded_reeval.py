#!/venv/bin/python
"""Re-run the checks against every stored seeded change (seeded/<id>/) and refresh its meta.json.

usage: tools/seeded_reeval.py [--jobs 4] [--seeds 0,1] [id-prefix ...]
For each id the properties run are: its own property + every property that caught it or was tried before.
"""
import argparse, json, os, subprocess, sys
from concurrent.futures import ThreadPoolExecutor

VERIF = os.path.dirname(os.path.dirname(os.path.abspath(__file__)))


def one(args):
    sid, seeds = args
    d = os.path.join(VERIF, "seeded", sid)
    meta = json.load(open(os.path.join(d, "meta.json")))
    v = meta.get("verified", {})
    props = sorted({meta["property"]} | set(v.get("caught_by", [])) | set((v.get("checks") or {}).keys()))
    r = subprocess.run(["/venv/bin/python", os.path.join(VERIF, "tools", "seeded_eval.py"), d, sid, "--props", ",".join(props),
                        "--seeds", seeds] + (["--skip-suite"] if "suite_ok" in v else []), capture_output=True, text=True)
    try:
        out = json.loads(r.stdout[r.stdout.index("{"):])
        return sid, out.get("confirmed"), out.get("caught_by")
    except Exception:
        return sid, None, r.stdout[-300:] + r.stderr[-300:]


def main():
    ap = argparse.ArgumentParser()
    ap.add_argument("--jobs", type=int, default=4)
    ap.add_argument("--seeds", default="0,1")
    ap.add_argument("--exclude-props", default="")
    ap.add_argument("--only-props", default="")
    ap.add_argument("prefixes", nargs="*")
    a = ap.parse_args()
    ids = sorted(x for x in os.listdir(os.path.join(VERIF, "seeded")) if os.path.isdir(os.path.join(VERIF, "seeded", x)))
    if a.prefixes:
        ids = [x for x in ids if any(x.startswith(p) for p in a.prefixes)]
    def props_of(sid):
        meta = json.load(open(os.path.join(VERIF, "seeded", sid, "meta.json")))
        v = meta.get("verified", {})
        return {meta["property"]} | set(v.get("caught_by", [])) | set((v.get("checks") or {}).keys())
    if a.exclude_props:
        ex_ = set(a.exclude_props.split(","))
        ids = [x for x in ids if not (props_of(x) & ex_)]
    if a.only_props:
        on_ = set(a.only_props.split(","))
        ids = [x for x in ids if props_of(x) & on_]
    print("re-evaluating %d seeded changes" % len(ids), flush=True)
    with ThreadPoolExecutor(a.jobs) as ex:
        for sid, ok, caught in ex.map(one, [(i, a.seeds) for i in ids]):
            print(sid, "confirmed" if ok else "NOT-CONFIRMED", caught, flush=True)


if __name__ == "__main__":
    main()
