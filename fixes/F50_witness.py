import sys, os
repo = os.environ.get("VERIF_REPO", "/repo")
sys.path.insert(0, "/tmp/ag_pipeline/verif/harness")
os.environ["VERIF_REPO"] = repo
import common
common.REPO = repo
common.ensure_repo_on_path()
from cr.cube.cube import Cube
resp = {"query": {}, "result": {"counts": [3, 4], "dimensions": [
  {"derived": False, "references": {"alias": "a", "name": "A"}, "type": {"class": "categorical", "ordinal": False,
    "categories": [{"id": 1, "missing": False, "name": "x", "numeric_value": None}]}},
  {"derived": False, "references": {"alias": "b", "name": "B"}, "type": {"class": "categorical", "ordinal": False,
    "categories": [{"id": 1, "missing": False, "name": "p", "numeric_value": None}, {"id": 2, "missing": False, "name": "q", "numeric_value": None}]}}],
  "element": "crunch:cube", "measures": {"count": {"data": [3, 4], "metadata": {"derived": True, "references": {}, "type": {"class": "numeric", "integer": True, "missing_reasons": {"No Data": -1}, "missing_rules": {}}}, "n_missing": 0}}, "missing": 0, "n": 7}}
ins = [{"function": "subtotal", "args": [1], "anchor": "top", "name": "S%d" % i, "id": i + 1} for i in range(3)]
sl = Cube(resp, transforms={"rows_dimension": {"insertions": ins}}).partitions[0]
print("row_order", sl.row_order().tolist())
print("derived_row_idxs", sl.derived_row_idxs)
