"""F51: column_index of a slice whose MR columns (or an MR x MR slice whose rows / columns) carry a subvariable flagged
missing raises ValueError: the unconditional baseline keeps the missing subvariable, the column proportions do not.
  /venv/bin/python /verif/fixes/F51_witness.py            -> ValueError ... shapes (2,2) (2,3)
  VERIF_REPO=<patched tree> /venv/bin/python ...          -> prints the 2 x 2 column index"""
import os, sys
from fractions import Fraction
sys.path.insert(0, "/verif/harness")
import common
common.ensure_repo_on_path()
import gen
from cr.cube.cube import Cube
R = gen.Var("cat", "r", cats=[{"id": 1, "missing": False, "name": "a", "numeric_value": None},
                              {"id": 2, "missing": False, "name": "b", "numeric_value": None}])
C = gen.Var("mr", "m", cats=[dict(c) for c in gen.MR_CATS],
            items=[{"id": 1, "alias": "m_a", "subvar_id": "0011", "name": "item a"},
                   {"id": 2, "alias": "m_b", "subvar_id": "0012", "name": "item b", "missing": True},
                   {"id": 3, "alias": "m_c", "subvar_id": "0013", "name": "item c"}])
survey = [(Fraction(1), [[0], [0, 0, 1]]), (Fraction(1), [[1], [1, 0, 0]]), (Fraction(2), [[0], [0, 1, 0]])]
sl = Cube(gen.cube_response([R, C], survey, True)).partitions[0]
print("column labels", list(sl.column_labels))
print("column_index", sl.column_index.tolist())
